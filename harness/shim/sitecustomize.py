"""Verification shim (DESIGN.md 3.3).  Loaded only because the harness puts
this directory on PYTHONPATH, and active only when BFG9000_VERIF=1.

Wraps the file-system mutations a bfg9000 process performs below
$BFG9000_VERIF_ROOT (builtins.open for writing + close, os.remove, os.utime,
os.makedirs, os.rename) and numbers the *mutation points* on both sides of
each call.  Each point is appended to $BFG9000_VERIF_LOG as one JSON line; at
point number $BFG9000_VERIF_FAULT ("k:kill" or "k:enospc") the process is
killed with os._exit(137) (buffered data is lost, as with SIGKILL) or the
call raises OSError(ENOSPC)."""
import os
import sys

# the reference ninja (harness/ninja_ref.py, installed as .../bin/ninja) is
# part of the environment, not of bfg9000: its own file operations (creating
# output directories, its build log) are not mutation points
_argv0 = os.path.basename((getattr(sys, 'argv', None) or [''])[0])

if os.environ.get('BFG9000_VERIF') == '1' and _argv0 not in (
        'ninja', 'ninja_ref.py'):
    import builtins
    import errno
    import json

    _root = os.path.realpath(os.environ.get('BFG9000_VERIF_ROOT', os.getcwd()))
    _log = os.environ.get('BFG9000_VERIF_LOG')
    _fault = os.environ.get('BFG9000_VERIF_FAULT', '')
    _fk, _fmode = 0, ''
    if _fault:
        _fk, _fmode = _fault.split(':')
        _fk = int(_fk)
    _n = [0]
    _open, _remove, _utime = builtins.open, os.remove, os.utime
    _makedirs, _rename, _replace = os.makedirs, os.rename, os.replace

    def _inside(path):
        try:
            p = os.path.realpath(os.fspath(path))
        except TypeError:
            return None
        if os.path.basename(p).startswith('.ninja_ref_'):
            return None      # bookkeeping of the reference ninja, not bfg9000
        if p == _root or p.startswith(_root + os.sep):
            return os.path.relpath(p, _root)
        return None

    def _point(op, rel, side):
        _n[0] += 1
        k = _n[0]
        if _log:
            fd = os.open(_log, os.O_WRONLY | os.O_APPEND | os.O_CREAT, 0o644)
            os.write(fd, (json.dumps({'k': k, 'op': op, 'file': rel,
                                      'side': side, 'pid': os.getpid()}) +
                          '\n').encode())
            os.close(fd)
        if k == _fk:
            if _fmode == 'kill':
                os._exit(137)
            elif _fmode == 'enospc' and side == 'pre':
                raise OSError(errno.ENOSPC, 'No space left on device', rel)

    class _File:
        def __init__(self, f, rel, path):
            self.__dict__['_f'] = f
            self.__dict__['_rel'] = rel
            self.__dict__['_path'] = path
            self.__dict__['_closed'] = False

        def __getattr__(self, name):
            return getattr(self._f, name)

        def __setattr__(self, name, value):
            setattr(self._f, name, value)

        def __iter__(self):
            return iter(self._f)

        def __enter__(self):
            return self

        def __exit__(self, *exc):
            self.close()
            return False

        def close(self):
            if self._closed:
                return
            self.__dict__['_closed'] = True
            try:
                _point('close', self._rel, 'pre')
            except OSError:
                # the data cannot be written: what is on disk stays truncated
                self._f.close()
                os.truncate(self._path, 0)
                raise
            self._f.close()
            _point('close', self._rel, 'post')

    def open(file, mode='r', *args, **kwargs):
        rel = None
        if isinstance(mode, str) and any(c in mode for c in 'wax+'):
            rel = _inside(file) if not isinstance(file, int) else None
        if rel is None:
            return _open(file, mode, *args, **kwargs)
        _point('open', rel, 'pre')
        f = _open(file, mode, *args, **kwargs)
        _point('open', rel, 'post')
        return _File(f, rel, os.path.realpath(os.fspath(file)))

    def _wrap(fn, name):
        def wrapper(path, *args, **kwargs):
            rel = _inside(path)
            if rel is None:
                return fn(path, *args, **kwargs)
            _point(name, rel, 'pre')
            r = fn(path, *args, **kwargs)
            _point(name, rel, 'post')
            return r
        return wrapper

    builtins.open = open
    os.remove = _wrap(_remove, 'remove')
    os.utime = _wrap(_utime, 'utime')
    os.makedirs = _wrap(_makedirs, 'makedirs')

    def rename(a, b, *args, **kwargs):
        rel = _inside(b)
        if rel is None:
            return _rename(a, b, *args, **kwargs)
        _point('rename', rel, 'pre')
        r = _rename(a, b, *args, **kwargs)
        _point('rename', rel, 'post')
        return r
    os.rename = rename

    def replace(a, b, *args, **kwargs):
        rel = _inside(b)
        if rel is None:
            return _replace(a, b, *args, **kwargs)
        _point('replace', rel, 'pre')
        r = _replace(a, b, *args, **kwargs)
        _point('replace', rel, 'post')
        return r
    os.replace = replace
