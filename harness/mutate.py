#!/venv/bin/python
"""Development aid: mutation analysis of the checks (not a registered command).

Small AST mutants of the files a property is anchored in are written to
scratch copies of /repo (never to /repo itself); each mutant is shown to the
quick tier of every check whose property names that file (VERIF_REPO /
VERIF_OUT overrides of engine.py).  A mutant no check notices is then given to
the pinned test-suite: if the tests kill it, it is not a "change that passes
the existing tests" and is dropped; otherwise it is a SURVIVOR and is written
to <out>/survivors/<n>.diff for triage (equivalent mutant, property-irrelevant
change, or a hole in a check).

usage: mutate.py --n 120 --seed 1 --jobs 4 [--props C05,C11] [--out DIR]
"""
import argparse
import ast
import copy
import json
import os
import random
import shutil
import subprocess
import sys
import tempfile
from concurrent.futures import ThreadPoolExecutor

VERIF = os.path.dirname(os.path.dirname(os.path.abspath(__file__)))
REPO = '/repo'

CMP = {ast.Eq: ast.NotEq, ast.NotEq: ast.Eq, ast.Lt: ast.LtE, ast.LtE: ast.Lt,
       ast.Gt: ast.GtE, ast.GtE: ast.Gt, ast.Is: ast.IsNot, ast.IsNot: ast.Is,
       ast.In: ast.NotIn, ast.NotIn: ast.In}
DROP_CALLS = {'sorted', 'uniques', 'listify', 'list', 'reversed', 'set',
              'abspath', 'normpath', 'iterate', 'flatten'}
DROP_METHODS = {'strip', 'lower', 'upper', 'rstrip', 'lstrip', 'copy',
                'reroot', 'as_directory', 'stripext', 'parent'}
STMT_METHODS = {'append', 'add', 'extend', 'update', 'insert', 'remove',
                'discard', 'pop', 'add_source', 'add_target', 'clear',
                'sort', 'setdefault'}


def candidates(tree):
    """(description, mutator(node) -> None) pairs keyed by node position"""
    out = []
    for node in ast.walk(tree):
        if isinstance(node, ast.Compare) and len(node.ops) == 1 and \
                type(node.ops[0]) in CMP:
            out.append((node, 'cmp', None))
        elif isinstance(node, ast.BoolOp):
            out.append((node, 'boolop', None))
        elif isinstance(node, ast.UnaryOp) and isinstance(node.op, ast.Not):
            out.append((node, 'not', None))
        elif isinstance(node, ast.Constant) and isinstance(node.value, bool):
            out.append((node, 'bool', None))
        elif isinstance(node, ast.Constant) and type(node.value) is int and \
                0 <= node.value <= 3:
            out.append((node, 'int', None))
        elif isinstance(node, ast.Constant) and isinstance(node.value, str) \
                and 1 <= len(node.value) <= 40 and \
                any(not c.isalnum() and c not in ' _' for c in node.value):
            out.append((node, 'str', None))
        elif isinstance(node, ast.Call) and isinstance(node.func, ast.Name) \
                and node.func.id in DROP_CALLS and len(node.args) == 1 and \
                not node.keywords:
            out.append((node, 'dropcall', None))
        elif isinstance(node, ast.Call) and \
                isinstance(node.func, ast.Attribute) and \
                node.func.attr in DROP_METHODS and not node.keywords:
            out.append((node, 'dropmethod', None))
        elif isinstance(node, ast.Expr) and isinstance(node.value, ast.Call) \
                and isinstance(node.value.func, ast.Attribute) and \
                node.value.func.attr in STMT_METHODS:
            out.append((node, 'dropstmt', None))
        elif isinstance(node, ast.If) and not node.orelse:
            out.append((node, 'ifalways', None))
        elif isinstance(node, ast.Slice) and (node.lower or node.upper):
            out.append((node, 'slice', None))
    return out


def in_docstring_or_error(tree):
    """nodes to skip: docstrings, arguments of raise / warn / format strings"""
    skip = set()
    for node in ast.walk(tree):
        if isinstance(node, ast.Raise):
            for n in ast.walk(node):
                skip.add(id(n))
        if isinstance(node, (ast.FunctionDef, ast.ClassDef, ast.Module)) and \
                node.body and isinstance(node.body[0], ast.Expr) and \
                isinstance(node.body[0].value, ast.Constant):
            skip.add(id(node.body[0].value))
        if isinstance(node, ast.FunctionDef) and node.name in (
                '__repr__', '__str__'):
            for n in ast.walk(node):
                skip.add(id(n))
        if isinstance(node, ast.Call) and isinstance(node.func, ast.Attribute)\
                and node.func.attr in ('warn', 'format', 'debug', 'info'):
            for n in ast.walk(node):
                skip.add(id(n))
    return skip


def apply(node, kind, rnd):
    if kind == 'cmp':
        node.ops = [CMP[type(node.ops[0])]()]
    elif kind == 'boolop':
        node.op = ast.Or() if isinstance(node.op, ast.And) else ast.And()
    elif kind == 'not':
        node.op = ast.UAdd() if False else node.op
        return 'unwrap'
    elif kind == 'bool':
        node.value = not node.value
    elif kind == 'int':
        node.value = node.value + rnd.choice([1, -1]) if node.value else 1
    elif kind == 'str':
        v = node.value
        idx = [i for i, c in enumerate(v) if not c.isalnum() and c not in ' _']
        i = rnd.choice(idx)
        node.value = v[:i] + v[i + 1:]
    elif kind in ('dropcall', 'dropmethod', 'dropstmt', 'ifalways'):
        return kind
    elif kind == 'slice':
        if node.lower is not None and rnd.random() < .5:
            node.lower = ast.BinOp(node.lower, ast.Add(), ast.Constant(1))
        elif node.upper is not None:
            node.upper = ast.BinOp(node.upper, ast.Sub(), ast.Constant(1))
        else:
            node.lower = ast.BinOp(node.lower, ast.Add(), ast.Constant(1))
    return None


class Replacer(ast.NodeTransformer):
    def __init__(self, target, how):
        self.target, self.how = target, how

    def generic_visit(self, node):
        node = super().generic_visit(node)
        if node is self.target:
            if self.how == 'unwrap':
                return node.operand
            if self.how == 'dropcall':
                return node.args[0]
            if self.how == 'dropmethod':
                return node.func.value
            if self.how == 'dropstmt':
                return ast.Pass()
            if self.how == 'ifalways':
                return node.body
        return node


def make_mutant(path, rnd):
    src = open(path).read()
    tree = ast.parse(src)
    skip = in_docstring_or_error(tree)
    cands = [c for c in candidates(tree) if id(c[0]) not in skip]
    if not cands:
        return None
    k = rnd.randrange(len(cands))
    t2 = copy.deepcopy(tree)
    skip2 = in_docstring_or_error(t2)
    c2 = [c for c in candidates(t2) if id(c[0]) not in skip2]
    node, kind, _ = c2[k]
    line = getattr(node, 'lineno', 0)
    how = apply(node, kind, rnd)
    if how:
        t2 = Replacer(node, how).visit(t2)
    ast.fix_missing_locations(t2)
    new = ast.unparse(t2)
    base = ast.unparse(tree)
    if new == base:
        return None
    return {'kind': kind, 'line': line, 'text': new, 'base': base,
            'orig_line': src.splitlines()[line - 1].strip() if line else ''}


def anchors():
    m = {}
    for ln in open(os.path.join(VERIF, 'properties.jsonl')):
        d = json.loads(ln)
        for f in d['anchors']['files']:
            if f.endswith('.py') and os.path.exists(os.path.join(REPO, f)):
                m.setdefault(f, []).append(d['id'])
    return m


def run_group(cmd, env, timeout):
    """run in its own process group; on timeout kill the whole group (a mutant
    can make bfg9000 loop forever) and report -9"""
    import signal
    p = subprocess.Popen(cmd, env=env, cwd=VERIF, stdout=subprocess.PIPE,
                         stderr=subprocess.STDOUT, text=True,
                         start_new_session=True)
    try:
        so, _ = p.communicate(timeout=timeout)
        return p.returncode, so
    except subprocess.TimeoutExpired:
        os.killpg(p.pid, signal.SIGKILL)
        so, _ = p.communicate()
        return -9, so


def run_one(arg):
    n, f, props, seed, out = arg
    rnd = random.Random(seed * 100003 + n)
    mut = make_mutant(os.path.join(REPO, f), rnd)
    if not mut:
        return None
    d = tempfile.mkdtemp(prefix='verif-mut-')
    res = {'n': n, 'file': f, 'kind': mut['kind'], 'line': mut['line'],
           'orig': mut['orig_line'], 'props': props, 'checks': {}}
    try:
        r = os.path.join(d, 'r')
        subprocess.run(['rsync', '-a', '--exclude', '.git', REPO + '/',
                        r + '/'], check=True)
        # the unchanged file re-printed by ast.unparse is the diff base
        open(os.path.join(d, 'base.py'), 'w').write(mut['base'] + '\n')
        open(os.path.join(r, f), 'w').write(mut['text'] + '\n')
        diff = subprocess.run(['diff', '-u', os.path.join(d, 'base.py'),
                               os.path.join(r, f)], capture_output=True,
                              text=True).stdout
        res['diff'] = diff[:3000]
        c = subprocess.run(['/venv/bin/python', '-c',
                            'import sys; sys.path.insert(0, %r); '
                            'import bfg9000.driver' % r],
                           capture_output=True, text=True)
        if c.returncode != 0:
            res['verdict'] = 'does-not-import'
            return res
        env = dict(os.environ, VERIF_REPO=r, VERIF_OUT=os.path.join(d, 'o'))
        for p in props:
            rc, so = run_group([os.path.join(VERIF, 'check'), p], env, 900)
            res['checks'][p] = rc
            if rc != 0:
                res['verdict'] = 'caught-by-' + p + (
                    '' if rc == 1 else '(hang)' if rc == -9 else
                    '(exit %d)' % rc)
                first = [x for x in so.splitlines()
                         if x.startswith(('VIOLATION', 'MACHINERY'))]
                res['first'] = first[0][:300] if first else so[-400:]
                return res
        b = subprocess.run(['/venv/bin/python', os.path.join(
            VERIF, 'harness', 'baseline_cmp.py'), r], capture_output=True,
            text=True)
        tail = b.stdout.strip().splitlines()[-1] if b.stdout.strip() else ''
        res['baseline'] = tail
        if 'missing=0' in tail:
            res['verdict'] = 'SURVIVOR'
            os.makedirs(os.path.join(out, 'survivors'), exist_ok=True)
            open(os.path.join(out, 'survivors', '%04d.diff' % n), 'w').write(
                '# %s  props %s  kind %s\n%s' % (f, props, mut['kind'], diff))
        else:
            res['verdict'] = 'killed-by-tests'
        return res
    finally:
        shutil.rmtree(d, ignore_errors=True)


def main():
    ap = argparse.ArgumentParser()
    ap.add_argument('--n', type=int, default=40)
    ap.add_argument('--seed', type=int, default=1)
    ap.add_argument('--jobs', type=int, default=4)
    ap.add_argument('--props', default='')
    ap.add_argument('--out', default='/tmp/verif-mutation')
    a = ap.parse_args()
    anc = anchors()
    want = set(a.props.split(',')) if a.props else None
    files = sorted(f for f, ps in anc.items()
                   if not want or want & set(ps))
    rnd = random.Random(a.seed)
    os.makedirs(a.out, exist_ok=True)
    jobs = []
    for n in range(a.n):
        f = rnd.choice(files)
        ps = [p for p in anc[f] if not want or p in want]
        jobs.append((n, f, ps, a.seed, a.out))
    log = open(os.path.join(a.out, 'results.jsonl'), 'a')
    from concurrent.futures import as_completed
    with ThreadPoolExecutor(a.jobs) as ex:
        for fut in as_completed([ex.submit(run_one, j) for j in jobs]):
            res = fut.result()
            if res:
                log.write(json.dumps(res) + '\n')
                log.flush()
                print('%4d %-40s %-10s %s' % (res['n'], res['file'],
                                               res['kind'], res['verdict']),
                      flush=True)


if __name__ == '__main__':
    main()
