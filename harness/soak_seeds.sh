#!/bin/sh
# usage: soak_seeds.sh "<seeds>" [ids...]: quick tier of every check under several VERIF_SEED values
seeds=$1; shift
ids=${*:-C01 C02 C03 C04 C05 C06 C07 C08 C09 C10 C11 C12 C13 C14 C15 C16 C17 C18 C19 C20}
cd /verif
for s in $seeds; do for i in $ids; do
  VERIF_SEED=$s ./check $i > /tmp/soak_${i}_$s.log 2>&1; rc=$?
  echo "seed=$s $i exit=$rc $(tail -1 /tmp/soak_${i}_$s.log | cut -c1-120)"
done; done
