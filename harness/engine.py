"""Shared engine: TLC runner, output parsing, batched trace validation,
evidence files, known findings, check CLI plumbing.

Everything a check does goes through here so that the conventions of
DESIGN.md section 3 are implemented once:

  * exit 0  = every explored real execution was accepted by the contract spec
              (known findings are printed as KNOWN-FINDING lines)
  * exit 1  = VIOLATION property=<id> replay=<path>
  * exit 2  = machinery failure (TLC error, environment-model disagreement
              with the real interpreter, vacuous coverage)
"""
import json
import os
import re
import shutil
import subprocess
import sys
import tempfile
import time

VERIF = os.path.dirname(os.path.dirname(os.path.abspath(__file__)))
SPEC = os.path.join(VERIF, 'spec')
# development aid (harness/mutate.py): run the checks against a scratch copy of
# the repository and write evidence / replay files elsewhere.  The registered
# commands never set these: they always check /repo itself.
REPO = os.environ.get('VERIF_REPO', '/repo')
OUT = os.environ.get('VERIF_OUT', VERIF)
BUILD = os.path.join(VERIF, 'build')
BIN = os.path.join(BUILD, 'bin')
PY = '/venv/bin/python'
NCPU = os.cpu_count() or 4


class TreeBroken(Exception):
    """The tree under test fails a precondition of a check: a valid project
    of the check's own does not configure or build at all, so the property
    cannot even be exercised.  Reported as a violation (the change broke
    what the property is about), not as a machinery failure."""


class MachineryError(Exception):
    pass


# --------------------------------------------------------------------------
# symbols: strings handed to TLA+ are sequences of one-symbol strings

def sym(ch):
    """One character -> TLA+ symbol (printable ASCII maps to itself)."""
    o = ord(ch)
    if ch == '\t':
        return 'TAB'
    if 32 <= o < 127:
        return ch
    return 'U+%04X' % o


def syms(s):
    return [sym(c) for c in s]


def unsyms(seq):
    out = []
    for s in seq:
        if s == 'TAB':
            out.append('\t')
        elif len(s) > 1 and s.startswith('U+'):
            out.append(chr(int(s[2:], 16)))
        else:
            out.append(s)
    return ''.join(out)


# --------------------------------------------------------------------------
# TLC

class TlcResult:
    def __init__(self, out, rc, wall):
        self.out = out
        self.rc = rc
        self.wall = wall
        m = re.findall(r'(\d+) states generated, (\d+) distinct states found',
                       out)
        if m:
            self.generated, self.distinct = map(int, m[-1])
        else:
            self.generated = self.distinct = 0
        self.error = ('Error:' in out) or rc not in (0,)
        self.invariant_violated = 'is violated' in out
        self.prints = []
        for line in out.splitlines():
            line = line.strip()
            if line.startswith('"[') or line.startswith('"{'):
                try:
                    self.prints.append(json.loads(_tla_unquote(line)))
                except Exception:
                    pass
        # per-action coverage: <Action line ... of module M>: distinct:total
        self.coverage = {}
        for m in re.finditer(r'^<(\w+) line \d+, col \d+ to line \d+, col '
                             r'\d+ of module (\w+)>: (\d+):(\d+)', out, re.M):
            name = m.group(1)
            self.coverage[name] = (self.coverage.get(name, 0) +
                                   int(m.group(4)))

    def tail(self, n=40):
        return '\n'.join(self.out.splitlines()[-n:])


def _tla_unquote(line):
    assert line[0] == '"' and line[-1] == '"'
    body = line[1:-1]
    out = []
    i = 0
    while i < len(body):
        c = body[i]
        if c == '\\' and i + 1 < len(body):
            n = body[i + 1]
            out.append({'n': '\n', 't': '\t', 'r': '\r', 'f': '\f'}.get(n, n))
            i += 2
        else:
            out.append(c)
            i += 1
    return ''.join(out)


def tla_str(s):
    """TLA+ string literal (module syntax; cfg files do NOT unescape)"""
    return '"' + s.replace('\\', '\\\\').replace('"', '\\"') + '"'


def tla_set(items):
    return '{' + ', '.join(tla_str(x) for x in items) + '}'


def tlc(module, cfg_text, **kw):
    """TLC, retried once when the JVM itself died (killed, out of memory,
    no summary line at all): on a heavily loaded machine that happens without
    saying anything about the specification or the code."""
    r = _tlc(module, cfg_text, **kw)
    died = r.rc in (-9, 137, 134, 1) and 'states generated' not in r.out and \
        'Error:' not in r.out
    if died or 'OutOfMemoryError' in r.out:
        time.sleep(5)
        r = _tlc(module, cfg_text, **kw)
    return r


def _tlc(module, cfg_text, *, workers=None, env=None, simulate=None,
         depth=None, seed=None, coverage=False, timeout=3600, deque=False,
         extra=(), defs=None, heap=None):
    """Run TLC on /verif/spec/<module>.tla with the given cfg text.
    `defs`: TLA+ definitions (constants that a cfg file cannot express, e.g.
    strings containing backslashes or quotes, tuples); a wrapper module that
    EXTENDS <module> and holds them is generated and the cfg substitutes
    them with `Const <- Def`."""
    work = tempfile.mkdtemp(prefix='verif-tlc-')
    try:
        target = os.path.join(SPEC, module + '.tla')
        if defs:
            wrap = 'MC_' + module
            with open(os.path.join(work, wrap + '.tla'), 'w') as f:
                f.write('---- MODULE %s ----\nEXTENDS %s\n%s\n====\n' %
                        (wrap, module, defs))
            target = os.path.join(work, wrap + '.tla')
            module = wrap
        cfg = os.path.join(work, module + '.cfg')
        with open(cfg, 'w') as f:
            f.write(cfg_text)
        cmd = ['tlc', '-metadir', os.path.join(work, 'states'),
               '-noGenerateSpecTE', '-config', cfg,
               '-workers', str(workers or NCPU)]
        if simulate:
            cmd += ['-simulate', simulate]
        if depth:
            cmd += ['-depth', str(depth)]
        if seed is not None:
            cmd += ['-seed', str(seed)]
        if coverage:
            cmd += ['-coverage', '1']
        cmd += list(extra)
        cmd.append(target)
        e = dict(os.environ)
        # (java.io.tmpdir: TLC leaves an empty tlc-<n> directory there per run)
        opts = ['-Xss64m', '-DTLA-Library=' + SPEC,
                '-Djava.io.tmpdir=' + work, '-XX:ParallelGCThreads=%d' % max(2, min(8, int(workers or NCPU)))]
        if heap:
            opts.append('-Xmx' + heap)
        if deque:
            opts.append('-Dtlc2.tool.queue.IStateQueue=StateDeque')
        e['JAVA_TOOL_OPTIONS'] = ' '.join(opts)
        if env:
            e.update(env)
        t0 = time.time()
        try:
            p = subprocess.run(cmd, cwd=SPEC, env=e, stdout=subprocess.PIPE,
                               stderr=subprocess.STDOUT, timeout=timeout,
                               text=True, errors='replace')
        except subprocess.TimeoutExpired as ex:
            subprocess.run(['pkill', '-f', work], check=False)
            raise MachineryError('TLC timeout on %s: %s' % (module, ex))
        return TlcResult(p.stdout, p.returncode, time.time() - t0)
    finally:
        shutil.rmtree(work, ignore_errors=True)


def tlc_ok(module, cfg_text, **kw):
    """Run TLC and insist on a clean run (no TLC error)."""
    r = tlc(module, cfg_text, **kw)
    if r.error:
        raise MachineryError('TLC failed on %s:\n%s' % (module, r.tail(60)))
    return r


def validate(module, cfg_text, data, **kw):
    """Batched validation: write `data` as JSON, run the trace/case spec.

    The spec prints (PrintT(ToJson(..))) tuples:
        ["ACCEPT", id]               the trace/case with that id is accepted
        ["REJECT", id, clause, ...]  rejected (clause names the conjunct)
        ["INFO", ...]                anything else
    Returns (accepted ids, {id: [reject tuples]}, TlcResult).
    """
    work = tempfile.mkdtemp(prefix='verif-trace-')
    try:
        path = os.path.join(work, 'trace.json')
        with open(path, 'w') as f:
            json.dump(data, f)
        env = dict(kw.pop('env', None) or {})
        env['TRACE_FILE'] = path
        r = tlc_ok(module, cfg_text, env=env, **kw)
    finally:
        shutil.rmtree(work, ignore_errors=True)
    acc, rej = set(), {}
    for p in r.prints:
        if isinstance(p, list) and p:
            if p[0] == 'ACCEPT':
                acc.add(p[1])
            elif p[0] == 'REJECT':
                rej.setdefault(p[1], []).append(p[2:])
    return acc, rej, r


def validate_traces(module, cfg_text, traces, chunk=20000, **kw):
    """Deterministic batched trace validation with a soundness count.

    traces: list of {"id": int, "events": [...]}.  The trace spec has one
    state per (trace, consumed prefix); it prints
    ["REJECT", id, clause, line, ...] when event `line` of trace `id` is not
    allowed and then offers no successor for that trace.  Every other reason
    for a trace to stop early is a machinery failure, detected by comparing
    TLC's distinct-state count with the number of states the accepted and
    rejected prefixes account for.
    Returns ({id: reject tuple}, total TlcResult-like stats dict).
    """
    from concurrent.futures import ThreadPoolExecutor
    rejects = {}
    stats = {'distinct': 0, 'generated': 0, 'wall': 0.0}
    kw.setdefault('workers', 1)
    kw.setdefault('heap', '4g')      # up to NCPU/2 of these run side by side
    jobs = kw.pop('jobs', max(1, NCPU // 2))

    def one(part):
        _, rej, r = validate(module, cfg_text, part, **kw)
        expected = 0
        for tr in part:
            n = len(tr['events'])
            if tr['id'] in rej:
                line = min(x[1] for x in rej[tr['id']])
                expected += line
            else:
                expected += n + 1
        if r.distinct != expected:
            raise MachineryError(
                'trace validation of %s: TLC found %d states, the verdicts '
                'account for %d (a trace stopped without a named clause)\n%s'
                % (module, r.distinct, expected, r.tail(30)))
        infos, ids = {}, {}
        # SOFT rejections: a clause failed, was reported, and the trace went on
        r.soft = [pr[1:] for pr in r.prints
                  if isinstance(pr, list) and len(pr) > 3 and pr[0] == 'SOFT']
        for pr in r.prints:
            if isinstance(pr, list) and len(pr) > 1 and pr[0] == 'INFO':
                infos[pr[1]] = infos.get(pr[1], 0) + 1
                if len(pr) > 2:
                    ids.setdefault(pr[1], set()).add(pr[2])
        r.infos = infos
        r.info_ids = ids
        return rej, r

    stats['info'] = {}
    stats['info_ids'] = {}
    stats['soft'] = []
    with ThreadPoolExecutor(jobs) as ex:
        for rej, r in ex.map(one, list(chunks(traces, chunk))):
            for k, v in r.infos.items():
                stats['info'][k] = stats['info'].get(k, 0) + v
            for k, v in r.info_ids.items():
                stats['info_ids'].setdefault(k, set()).update(v)
            stats['soft'] += r.soft
            for k, v in rej.items():
                rejects[k] = min(v, key=lambda x: x[1])
            stats['distinct'] += r.distinct
            stats['generated'] += r.generated
            stats['wall'] += r.wall
    return rejects, stats


# --------------------------------------------------------------------------
# known findings

def load_known():
    path = os.path.join(VERIF, 'known_findings.json')
    if not os.path.exists(path):
        return []
    with open(path) as f:
        return json.load(f).get('findings', [])


# --------------------------------------------------------------------------
# a check run

class Check:
    def __init__(self, pid, argv=None):
        import argparse
        ap = argparse.ArgumentParser(prog='check ' + pid)
        ap.add_argument('--tier', default=os.environ.get('VERIF_TIER',
                                                         'quick'),
                        choices=['quick', 'thorough'])
        ap.add_argument('--replay')
        ap.add_argument('--seed', type=int,
                        default=int(os.environ.get('VERIF_SEED', '1')))
        self.args = ap.parse_args(argv)
        self.pid = pid
        self.tier = self.args.tier
        self.quick = self.tier == 'quick'
        self.seed = self.args.seed
        self.t0 = time.time()
        self.states = 0
        self.transitions = 0
        self.traces = 0
        self.evaluations = 0
        self.samples = []
        self.violations = []       # (key, what, replay-object)
        self.known_hit = {}
        self.notes = {}
        self.assumptions = []
        self.tlc_cmds = []
        self.known = [k for k in load_known() if k['property'] == pid]
        self.drift = 0
        # --replay <file>: the check is re-run (same tier and seed as recorded
        # in the file) and only the recorded violation key is looked for
        self.replay_key = None
        if self.args.replay:
            with open(self.args.replay) as f:
                rec = json.load(f)
            self.replay_key = rec['key']
            self.tier = rec.get('tier', self.tier)
            self.quick = self.tier == 'quick'
            self.seed = rec.get('seed', self.seed)
            print('replaying %s (tier %s, seed %d): looking for %s' % (
                self.args.replay, self.tier, self.seed, self.replay_key))

    # ---- accounting
    def add_model(self, r, what=None):
        self.states += r.distinct
        self.transitions += r.generated
        if what:
            self.notes.setdefault('tlc_runs', []).append(
                {'what': what, 'distinct': r.distinct,
                 'generated': r.generated, 'wall_s': round(r.wall, 1)})

    def sample(self, obj, limit=6):
        if len(self.samples) < limit:
            self.samples.append(obj)

    def note(self, k, v):
        self.notes[k] = v

    # ---- findings
    def report(self, key, what, replay=None):
        """A real execution rejected by the contract.  `key` is the
        normalised identification used by known_findings.json."""
        for k in self.known:
            if re.fullmatch(k['key'], key):
                self.known_hit.setdefault(k['key'], (k, 0))
                kk, n = self.known_hit[k['key']]
                self.known_hit[k['key']] = (kk, n + 1)
                return
        self.violations.append((key, what, replay))

    def machinery(self, msg):
        print('MACHINERY-FAILURE property=%s %s' % (self.pid, msg))
        sys.stdout.flush()
        self.finish(machinery=True)

    # ---- the end
    def finish(self, machinery=False, exhaustive=False, rule='',
               distinct_nontrivial=None, extra=None):
        wall = time.time() - self.t0
        for key, (k, n) in sorted(self.known_hit.items()):
            print('KNOWN-FINDING: property=%s %s (key %s; %d executions)' %
                  (self.pid, k['what'], key, n))
        rdir = os.path.join(OUT, 'replay', self.pid)
        seen = set()
        nviol = 0
        for key, what, replay in self.violations:
            if key in seen:
                continue
            if self.replay_key is not None and key != self.replay_key:
                continue
            seen.add(key)
            nviol += 1
            if nviol > 25:
                continue
            os.makedirs(rdir, exist_ok=True)
            name = re.sub(r'[^A-Za-z0-9_.-]+', '_', key)[:80] or 'case'
            path = os.path.join(rdir, name + '.json')
            with open(path, 'w') as f:
                json.dump({'property': self.pid, 'key': key, 'what': what,
                           'tier': self.tier, 'seed': self.seed,
                           'replay': replay}, f, indent=1, default=str)
            print('VIOLATION property=%s replay=%s  # %s' %
                  (self.pid, path, what))
        cov = {
            'states': self.states, 'transitions': self.transitions,
            'traces_validated_against_impl': self.traces,
            'samples': self.samples or ['(none)'],
            'evaluations': self.evaluations or self.traces,
            'distinct_nontrivial': (distinct_nontrivial
                                    if distinct_nontrivial is not None
                                    else self.traces),
            'rule': rule, 'exhaustive': bool(exhaustive),
            'known_findings_reproduced': sorted(self.known_hit),
            'spec_drift': self.drift,
        }
        cov.update(self.notes)
        if extra:
            cov.update(extra)
        ev = {'property_id': self.pid, 'tier': self.tier, 'seed': self.seed,
              'level': 'model_checking', 'coverage': cov,
              'assumptions': self.assumptions, 'wall_s': round(wall, 1),
              'violations': nviol}
        os.makedirs(os.path.join(OUT, 'evidence'), exist_ok=True)
        with open(os.path.join(OUT, 'evidence', self.pid + '.json'),
                  'w') as f:
            json.dump(ev, f, indent=1, default=str)
        print('%s tier=%s states=%d traces=%d violations=%d known=%d '
              'wall=%.1fs' % (self.pid, self.tier, self.states, self.traces,
                              nviol, len(self.known_hit), wall))
        sys.stdout.flush()
        if machinery:
            sys.exit(2)
        sys.exit(1 if nviol else 0)


def scratch(prefix='verif-'):
    return tempfile.mkdtemp(prefix=prefix)


def chunks(seq, n):
    for i in range(0, len(seq), n):
        yield seq[i:i + n]


# --------------------------------------------------------------------------
# running the real bfg9000 (editable install of /repo) and tools

def apalache(module, args, timeout=900):
    """apalache-mc check on a module of /verif/spec (bounded / inductive
    symbolic checks; TLC stays the main engine).  Returns (status, seconds,
    tail) with status 'ok' | 'error' | 'unavailable'."""
    exe = shutil.which('apalache-mc')
    if not exe:
        return 'unavailable', 0.0, ''
    out = scratch('verif-apa-')
    t0 = time.time()
    try:
        p = subprocess.run([exe, 'check', '--out-dir=' + out] + list(args) +
                           [module + '.tla'], cwd=SPEC, text=True,
                           stdout=subprocess.PIPE, stderr=subprocess.STDOUT,
                           timeout=timeout)
        ok = p.returncode == 0 and 'EXITCODE: OK' in p.stdout
        return ('ok' if ok else 'error'), time.time() - t0, p.stdout[-1500:]
    except subprocess.TimeoutExpired:
        return 'error', time.time() - t0, 'timeout'
    finally:
        shutil.rmtree(out, ignore_errors=True)


def tool_env(extra=None):
    e = {k: v for k, v in os.environ.items()
         if k in ('HOME', 'LANG', 'LC_ALL', 'TMPDIR', 'USER')}
    e['PATH'] = BIN + ':/venv/bin:/usr/local/bin:/usr/bin:/bin'
    e['PYTHONHASHSEED'] = '0'
    e['LC_ALL'] = 'C.UTF-8'
    if REPO != '/repo':
        e['PYTHONPATH'] = REPO
    if extra:
        e.update(extra)
    return e


def run(cmd, cwd=None, env=None, timeout=300, input=None):
    p = subprocess.run(cmd, cwd=cwd, env=env or tool_env(), timeout=timeout,
                       stdout=subprocess.PIPE, stderr=subprocess.STDOUT,
                       text=True, errors='replace', input=input)
    return p.returncode, p.stdout


def bfg_configure(srcdir, builddir, *args, env=None, backend='make'):
    return run(['/venv/bin/bfg9000', 'configure', builddir,
                '--no-resolve-packages', '--backend=' + backend] + list(args),
               cwd=srcdir, env=env)


def pmap(fn, items, jobs=None):
    from concurrent.futures import ThreadPoolExecutor
    with ThreadPoolExecutor(jobs or NCPU) as ex:
        return list(ex.map(fn, items))


def tree_snapshot(root):
    """(relative path, kind, size, mtime_ns) of everything below root"""
    out = []
    for dp, dns, fns in os.walk(root):
        for n in sorted(dns + fns):
            p = os.path.join(dp, n)
            st = os.lstat(p)
            out.append((os.path.relpath(p, root), st.st_mode, st.st_size,
                        st.st_mtime_ns if not os.path.isdir(p) else 0))
    return sorted(out)
