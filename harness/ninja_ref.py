#!/usr/bin/env python3
"""Reference evaluator of the Ninja manifest language + mtime-driven build
(DESIGN.md 3.2).  Implements the semantics modelled in spec/NinjaLang.tla and
spec/BuildExec.tla; installed as /verif/build/bin/ninja because the sandbox
has no ninja.  Exit status: 0 ok, 1 build failure, 3 manifest error.

Supported: variables and scopes (file / rule / build; build bindings are
evaluated at parse time in the file scope, rule bindings lazily in the edge
scope), $-escapes, rule, build (explicit | implicit || order-only), phony,
default, pool (ignored), depfile + deps=gcc, generator (manifest rebuild +
reload), restat (ignored), -t clean, -C, -f, -k, -j (ignored: sequential),
-v, -n, --version, --verif-shell <sh> (run commands through <sh> -c).
"""
import json
import os
import re
import subprocess
import sys


class ManifestError(Exception):
    pass


VARNAME = re.compile(r'[a-zA-Z0-9_.-]+')
SIMPLE_VARNAME = re.compile(r'[a-zA-Z0-9_-]+')


def lex_value(text, path=False):
    """-> (token list, rest); tokens are ('s', literal) or ('v', name).
    path=True stops at an unescaped space, ':', '|' or end of line."""
    toks, i, n = [], 0, len(text)
    lit = []

    def flush():
        if lit:
            toks.append(('s', ''.join(lit)))
            del lit[:]
    while i < n:
        c = text[i]
        if c == '$':
            if i + 1 >= n:
                raise ManifestError('bad $-escape at end of line')
            d = text[i + 1]
            if d in '$ :':
                lit.append(d)
                i += 2
            elif d == '\n':
                i += 2
                while i < n and text[i] == ' ':
                    i += 1
            elif d == '{':
                m = VARNAME.match(text, i + 2)
                if not m or m.end() >= n or text[m.end()] != '}':
                    raise ManifestError('bad ${var}')
                flush()
                toks.append(('v', m.group(0)))
                i = m.end() + 1
            else:
                m = SIMPLE_VARNAME.match(text, i + 1)
                if not m:
                    raise ManifestError("bad $-escape (literal $ must be "
                                        "written as $$)")
                flush()
                toks.append(('v', m.group(0)))
                i = m.end()
        elif path and c in ' :|\n':
            break
        elif c == '\n':
            break
        else:
            lit.append(c)
            i += 1
    flush()
    return toks, text[i:]


class Env:
    def __init__(self, parent=None):
        self.vars = {}
        self.parent = parent

    def lookup(self, name):
        e = self
        while e:
            if name in e.vars:
                return e.vars[name]
            e = e.parent
        return ''


def evaluate(toks, lookup):
    return ''.join(v if k == 's' else lookup(v) for k, v in toks)


def shell_escape(s):
    """ninja's GetShellEscapedString"""
    if s and re.fullmatch(r'[a-zA-Z0-9_+\-./]+', s):
        return s
    return "'" + s.replace("'", "'\\''") + "'"


class Edge:
    def __init__(self):
        self.rule = None
        self.outs, self.ins, self.implicit, self.order = [], [], [], []
        self.env = None

    def binding(self, name, state, raw=False):
        """raw: $in / $out are not shell-escaped (Ninja evaluates `depfile`,
        `rspfile` and `dyndep` that way: they are file names, not shell text)"""
        esc = (lambda p: p) if raw else shell_escape

        def lookup(var):
            if var == 'in':
                return ' '.join(esc(p) for p in self.ins)
            if var == 'in_newline':
                return '\n'.join(esc(p) for p in self.ins)
            if var == 'out':
                return ' '.join(esc(p) for p in self.outs)
            if var in self.env.vars:
                return self.env.vars[var]
            rule = state.rules.get(self.rule, {})
            if var in rule:
                if var in lookup.active:
                    raise ManifestError('cycle in rule variables')
                lookup.active.add(var)
                try:
                    return evaluate(rule[var], lookup)
                finally:
                    lookup.active.discard(var)
            return self.env.parent.lookup(var) if self.env.parent else ''
        lookup.active = set()
        return lookup(name)


class State:
    def __init__(self):
        self.env = Env()
        self.rules = {'phony': {}}
        self.edges = []
        self.producer = {}
        self.defaults = []


def logical_lines(text):
    """join $-newline continuations; yields (indent, line without newline)"""
    lines = text.split('\n')
    i = 0
    while i < len(lines):
        line = lines[i]
        while True:
            m = re.search(r'(\$*)$', line)
            if len(m.group(1)) % 2 == 1 and i + 1 < len(lines):
                i += 1
                line = line[:-1] + lines[i].lstrip(' ')
            else:
                break
        i += 1
        stripped = line.lstrip(' ')
        if not stripped or stripped.startswith('#'):
            continue
        yield len(line) - len(stripped), stripped


def parse_let(line):
    m = re.match(r'([a-zA-Z0-9_.-]+)\s*=\s*(.*)$', line, re.S)
    if not m:
        raise ManifestError('expected variable binding: ' + line[:60])
    toks, rest = lex_value(m.group(2))
    return m.group(1), toks


def parse_paths(text, env_lookup):
    """paths up to ':' / end; returns lists split at | and ||"""
    groups = [[]]
    text = text.lstrip(' ')
    while text and text[0] not in ':\n':
        if text.startswith('||'):
            groups.append('||')
            groups.append([])
            text = text[2:].lstrip(' ')
            continue
        if text[0] == '|':
            groups.append('|')
            groups.append([])
            text = text[1:].lstrip(' ')
            continue
        toks, text = lex_value(text, path=True)
        if not toks:
            raise ManifestError('empty path')
        groups[-1].append(evaluate(toks, env_lookup))
        text = text.lstrip(' ')
    return groups, text


def parse(path, state):
    try:
        text = open(path).read()
    except OSError as e:
        raise ManifestError(str(e))
    cur = None     # ('rule', dict) or ('build', Edge)
    for indent, line in logical_lines(text):
        if indent > 0:
            if cur is None:
                raise ManifestError('unexpected indent')
            key, toks = parse_let(line)
            if cur[0] == 'rule':
                cur[1][key] = toks
            elif cur[0] == 'build':
                cur[1].env.vars[key] = evaluate(toks, state.env.lookup)
            continue
        cur = None
        if line.startswith('rule '):
            name = line[5:].strip()
            if name in state.rules:
                raise ManifestError("duplicate rule '%s'" % name)
            state.rules[name] = {}
            cur = ('rule', state.rules[name])
        elif line.startswith('build '):
            e = Edge()
            e.env = Env(state.env)
            # paths are evaluated after the bindings in real ninja; bfg never
            # uses build-level variables inside paths, file scope is enough
            groups, rest = parse_paths(line[6:], state.env.lookup)
            e.outs = groups[0]
            if not rest.startswith(':'):
                raise ManifestError("expected ':' in build line")
            rest = rest[1:].lstrip(' ')
            m = re.match(r'[a-zA-Z0-9_.-]+', rest)
            if not m:
                raise ManifestError('expected rule name')
            e.rule = m.group(0)
            if e.rule not in state.rules:
                raise ManifestError("unknown build rule '%s'" % e.rule)
            groups, rest = parse_paths(rest[m.end():], state.env.lookup)
            e.ins = groups[0]
            k = 1
            while k < len(groups):
                if groups[k] == '|':
                    e.implicit = groups[k + 1]
                elif groups[k] == '||':
                    e.order = groups[k + 1]
                k += 2
            for o in e.outs:
                if o in state.producer:
                    raise ManifestError("multiple rules generate %s" % o)
                state.producer[o] = e
            state.edges.append(e)
            cur = ('build', e)
        elif line.startswith('default '):
            groups, rest = parse_paths(line[8:], state.env.lookup)
            state.defaults += groups[0]
        elif line.startswith('pool '):
            cur = ('rule', {})
        elif line.startswith('include ') or line.startswith('subninja '):
            raise ManifestError('include/subninja not supported')
        else:
            key, toks = parse_let(line)
            state.env.vars[key] = evaluate(toks, state.env.lookup)
    return state


# ---------------------------------------------------------------- building
DEPS_FILE = '.ninja_ref_deps.json'
LOG_FILE = '.ninja_ref_log.json'


def mtime(p):
    try:
        return os.stat(p).st_mtime_ns
    except OSError:
        return None


def parse_depfile(text):
    text = text.replace('\\\n', ' ')
    # the target ends at the first colon that is followed by blank space or
    # the end of the text (a colon inside a file name is not a separator)
    m = re.search(r':(?=[ \t\n]|$)', text)
    if not m:
        return []
    body = text[m.end():]
    out, cur, i = [], [], 0
    while i < len(body):
        c = body[i]
        if c == '\\' and i + 1 < len(body) and body[i + 1] in ' #\\':
            cur.append(body[i + 1])
            i += 2
        elif c == '$' and i + 1 < len(body) and body[i + 1] == '$':
            cur.append('$')
            i += 2
        elif c in ' \n\t':
            if cur:
                out.append(''.join(cur))
                cur = []
            i += 1
        else:
            cur.append(c)
            i += 1
    if cur:
        out.append(''.join(cur))
    return out


class Builder:
    def __init__(self, state, opts):
        self.state = state
        self.opts = opts
        self.done = {}      # edge -> ran? / failed
        self.failed = 0
        self.failed_edges = set()
        self.ran = 0
        self.deps = self.load(DEPS_FILE)
        self.cmdlog = self.load(LOG_FILE)

    @staticmethod
    def load(name):
        try:
            return json.load(open(name))
        except (OSError, ValueError):
            return {}

    def save(self):
        json.dump(self.deps, open(DEPS_FILE, 'w'))
        json.dump(self.cmdlog, open(LOG_FILE, 'w'))

    def want(self, target, stack=()):
        """-> True if target was (re)built or is otherwise newer ('dirty')"""
        e = self.state.producer.get(target)
        if e is None:
            if mtime(target) is None:
                raise ManifestError("'%s' missing and no known rule to make "
                                    "it" % target)
            return False
        if id(e) in self.failed_edges:
            raise BuildFailed()
        if id(e) in self.done:
            return self.done[id(e)]
        if id(e) in stack:
            raise ManifestError('dependency cycle')
        stack = stack + (id(e),)
        dirty = False
        blocked = False
        for i in e.ins + e.implicit:
            try:
                dirty |= bool(self.want(i, stack))
            except BuildFailed:
                blocked = True
        for i in e.order:
            try:
                self.want(i, stack)
            except BuildFailed:
                blocked = True
        if blocked:
            self.failed_edges.add(id(e))
            raise BuildFailed()
        phony = e.rule == 'phony'
        if phony:
            if not e.ins and not e.implicit:
                dirty = any(mtime(o) is None for o in e.outs)
            self.done[id(e)] = dirty
            return dirty
        if not dirty:
            outs = [mtime(o) for o in e.outs]
            if any(o is None for o in outs):
                dirty = True
            else:
                oldest = min(outs)
                ins = list(e.ins + e.implicit) + \
                    self.deps.get(e.outs[0], [])
                # a depfile without `deps =` is read every time the edge is
                # examined (this is how the regenerate rule watches the
                # directories find_files walked)
                df = e.binding('depfile', self.state, raw=True)
                dfdeps = []
                if df and not e.binding('deps', self.state) and \
                        os.path.exists(df):
                    try:
                        dfdeps = parse_depfile(open(df).read())
                    except OSError:
                        dfdeps = []
                ins += dfdeps
                for i in ins:
                    # a phony input takes the newest time of its inputs
                    t = mtime(i)
                    if t is None:
                        if i in self.deps.get(e.outs[0], []) or i in dfdeps or \
                                (self.state.producer.get(i) and
                                 self.state.producer[i].rule == 'phony'):
                            if not self.state.producer.get(i):
                                dirty = True     # a recorded header vanished
                            continue
                        dirty = True
                    elif t > oldest:
                        dirty = True
                cmd = e.binding('command', self.state)
                if not e.binding('generator', self.state) and \
                        self.cmdlog.get(e.outs[0]) not in (None, cmd):
                    dirty = True
        if dirty:
            self.run(e)
        self.done[id(e)] = dirty
        return dirty

    def run(self, e):
        cmd = e.binding('command', self.state)
        desc = e.binding('description', self.state)
        if self.opts['dry']:
            print(cmd)
            return
        for o in e.outs:
            d = os.path.dirname(o)
            if d:
                os.makedirs(d, exist_ok=True)
        if self.opts['verbose'] or not desc:
            print('[ninja_ref] ' + cmd, flush=True)
        else:
            print('[ninja_ref] ' + desc, flush=True)
        log = os.environ.get('VERIF_NINJA_LOG')
        if log:
            with open(log, 'a') as f:
                f.write(json.dumps({'outs': e.outs, 'rule': e.rule,
                                    'command': cmd,
                                    'cmd_binding': e.env.vars.get('cmd'),
                                    'ins': e.ins, 'implicit': e.implicit,
                                    'order': e.order}) + '\n')
        rc = subprocess.call([self.opts['shell'], '-c', cmd])
        self.ran += 1
        if rc != 0:
            self.failed += 1
            print('[ninja_ref] FAILED: ' + ' '.join(e.outs), flush=True)
            self.failed_edges.add(id(e))
            if self.failed >= self.opts['keep'] > 0:
                self.save()
                print('ninja: build stopped: subcommand failed.')
                sys.exit(1)
            raise BuildFailed()
        self.cmdlog[e.outs[0]] = cmd
        depfile = e.binding('depfile', self.state, raw=True)
        if depfile and e.binding('deps', self.state) == 'gcc':
            try:
                self.deps[e.outs[0]] = parse_depfile(open(depfile).read())
                os.remove(depfile)
            except OSError:
                self.deps[e.outs[0]] = []


class BuildFailed(Exception):
    pass


def clean(state):
    n = 0
    for e in state.edges:
        if e.rule == 'phony' or e.binding('generator', state):
            continue
        files = list(e.outs)
        df = e.binding('depfile', state, raw=True)
        if df:
            files.append(df)
        for f in files:
            try:
                os.remove(f)
                n += 1
            except OSError:
                pass
    for f in (DEPS_FILE, LOG_FILE):
        try:
            os.remove(f)
        except OSError:
            pass
    print('Cleaning... %d files.' % n)


def main(argv):
    opts = {'keep': 1, 'verbose': False, 'dry': False, 'shell': '/bin/sh'}
    manifest = 'build.ninja'
    targets, tool = [], None
    i = 0
    while i < len(argv):
        a = argv[i]
        if a == '--version':
            print('1.11.1')
            return 0
        elif a == '-C':
            os.chdir(argv[i + 1])
            i += 1
        elif a == '-f':
            manifest = argv[i + 1]
            i += 1
        elif a == '-k':
            opts['keep'] = int(argv[i + 1])
            i += 1
        elif a == '-j' or a == '-l':
            i += 1
        elif a.startswith('-j'):
            pass
        elif a == '-v':
            opts['verbose'] = True
        elif a == '-n':
            opts['dry'] = True
        elif a == '-t':
            tool = argv[i + 1]
            i += 1
        elif a == '--verif-shell':
            opts['shell'] = argv[i + 1]
            i += 1
        else:
            targets.append(a)
        i += 1
    try:
        state = parse(manifest, State())
        if tool == 'clean':
            clean(state)
            return 0
        if tool:
            print('ninja_ref: tool %s not supported' % tool)
            return 3
        # manifest regeneration (generator rule), then reload
        if manifest in state.producer and not opts['dry']:
            b = Builder(state, opts)
            try:
                if b.want(manifest):
                    b.save()
                    state = parse(manifest, State())
            except BuildFailed:
                b.save()
                print('ninja: error: rebuilding \'%s\': subcommand failed' %
                      manifest)
                return 1
        b = Builder(state, opts)
        goals = targets or state.defaults or \
            [o for e in state.edges for o in e.outs
             if not any(o in f.ins + f.implicit + f.order
                        for f in state.edges)]
        for g in goals:
            if g not in state.producer and mtime(g) is None:
                print("ninja: error: unknown target '%s'" % g)
                return 1
        failed = False
        for g in goals:
            try:
                b.want(g)
            except BuildFailed:
                failed = True
        b.save()
        if failed or b.failed:
            print('ninja: build stopped: subcommand failed.')
            return 1
        if b.ran == 0:
            print('ninja: no work to do.')
        return 0
    except ManifestError as e:
        print('ninja: error: %s' % e)
        return 3


if __name__ == '__main__':
    sys.exit(main(sys.argv[1:]))
