"""One use of every builtin that makes a file object out of something in the
source directory (shared by C18: distribution, C13: determinism).  `R` (the
recording stub) is defined by scriptgen.bfg_text()."""

ZOO = '''
# one use of every builtin that makes a file object out of something in srcdir
zobj = object_file(file='zoo/o1.c')
zobjs = object_files(['zoo/o2.c', 'zoo/o3.cpp'])
executable('zoo1', [zobj] + zobjs + ['zoo/lexer.l'])
zpch = precompiled_header(file='zoo/pre.h')
executable('zoo2', [source_file('zoo/o4.c')], pch=zpch,
           libs=[static_library('zoo/libpre.a')])
install(man_page('zoo/tool.1', compress=False))
copy_files(['zoo/c1.txt', generic_file('zoo/c2.txt')])
auto_file('zoo/auto.c')
module_def_file('zoo/x.def')
zdir = directory('zoo/dir', include='*.dat')
build_step('zout.txt', cmd=[R, 'Z', source_file('zoo/in.txt'), zdir])
test(executable('zoo3', ['zoo/t.c'], includes=[header_file('zoo/t.h')]))
# files kept out of the distribution (dist=False) that steps nevertheless
# name: on a command line, as a further dependency
znd1 = generic_file('zoo/local.cfg', dist=False)
znd2 = source_file('zoo/stamp.c', dist=False)
build_step('zout2.txt', cmd=[R, 'Z2', znd1], extra_deps=[znd2])
command('zcmd', cmd=[R, 'Z3', znd1], extra_deps=[znd2])
# vendored headers of the project, searched like a system directory
zsys = header_directory('zoo/vendor/include', include='**/*.h', system=True)
executable('zoo4', ['zoo/v.c'], includes=[zsys, header_file('zoo/sysone.h')])
'''

# files the zoo names (all of them must be distributed)
ZOO_NAMED = ['zoo/' + x for x in (
    'o1.c', 'o2.c', 'o3.cpp', 'lexer.l', 'pre.h', 'o4.c', 'libpre.a',
    'tool.1', 'c1.txt', 'c2.txt', 'auto.c', 'x.def', 'dir/a.dat', 'in.txt',
    't.c', 't.h', 'vendor/include/third/party.h', 'vendor/include/top.h',
    'v.c', 'sysone.h')]


# files the zoo marks dist=False (none of them may be distributed)
ZOO_NODIST = ['zoo/local.cfg', 'zoo/stamp.c']


def zoo_files():
    f = {}
    for z in ('o1.c', 'o2.c', 'o3.cpp', 'o4.c', 'auto.c', 't.c'):
        f['zoo/' + z] = 'int %s;\n' % z.split('.')[0]
    f['zoo/lexer.l'] = '%%\n%%\n'
    f['zoo/parser.y'] = '%%\nstart: ;\n%%\n'
    f['zoo/pre.h'] = '#define PRE 1\n'
    f['zoo/t.h'] = '#define T 1\n'
    f['zoo/libpre.a'] = '!<arch>\n'
    f['zoo/vendor/include/third/party.h'] = '#define PARTY 1\n'
    f['zoo/vendor/include/top.h'] = '#define TOP 1\n'
    f['zoo/sysone.h'] = '#define SYSONE 1\n'
    f['zoo/local.cfg'] = 'cfg\n'
    f['zoo/stamp.c'] = 'int stamp;\n'
    f['zoo/v.c'] = 'int v;\n'
    f['zoo/tool.1'] = '.TH tool 1\n'
    for z in ('c1.txt', 'c2.txt', 'x.def', 'in.txt', 'dir/a.dat',
              'dir/skip.me'):
        f['zoo/' + z] = 'z\n'
    return f
