"""Concretiser and runner for abstract build scripts (spec/Script.tla): used by
C03 (dependency graph), C06 (backends agree), C13 (determinism), C18 (dist)."""
import json
import os
import re
import shutil

from engine import BIN, tlc_ok, MachineryError, run, tool_env
import regen

REC = os.path.join(BIN, 'rec')

GEN_CFG = ('CONSTANTS NSeeds = %d SeedBase = %d MaxDecls = %d\n'
           'SPECIFICATION GenSpec\nINVARIANT Emit\nCHECK_DEADLOCK FALSE\n')


def generate(n, seed, maxdecls=7):
    g = tlc_ok('Script_Gen', GEN_CFG % (n, seed, maxdecls), timeout=1800)
    scripts, seen = [], set()
    for p in g.prints:
        if isinstance(p, list) and p and isinstance(p[0], dict) and \
                'kind' in p[0]:
            k = json.dumps(p, sort_keys=True)
            if k not in seen:
                seen.add(k)
                scripts.append(p)
    if len(scripts) < n // 2:
        raise MachineryError('Script_Gen gave %d scripts\n%s' %
                             (len(scripts), g.tail()))
    return scripts, g


def ref_expr(r, decls):
    """python expression (inside build.bfg) for a source/input reference"""
    if r['f']:
        return repr(r['f'] + ('.txt' if r['f'] == 'd1' else '.c'))
    d = [x for x in decls if x['name'] == r['t']][0]
    if d['kind'] == 'step' and d['nouts'] > 1:
        return r['t'] + '[0]'
    return r['t']


def primary_output(d):
    k, n = d['kind'], d['name']
    if k == 'exe':
        return n
    if k == 'slib':
        return 'lib%s.a' % n
    if k in ('shlib', 'dlib'):
        return 'lib%s.so' % n
    if k == 'step':
        return n + '.c'
    if k == 'copy':
        f = d['ins'][0]['f']
        if not f:                     # a copy / link of a built file
            return 'cp_' + n + '.out'
        return f + ('.txt' if f == 'd1' else '.c')
    return None


def bfg_text(decls, header=''):
    L = ["project('p', version='1.0')", "R = %r" % REC]
    if header:
        L.append(header)
    if any(d.get('vlib') for d in decls):
        L.append("v1 = static_library('libv1.a')")
    for d in decls:
        k, n = d['kind'], d['name']
        if k in ('exe', 'slib', 'shlib', 'dlib'):
            fn = {'exe': 'executable', 'slib': 'static_library',
                  'shlib': 'shared_library', 'dlib': 'library'}[k]
            srcs = '[' + ', '.join(ref_expr(r, decls) for r in d['srcs']) + ']'
            libs = '[' + ', '.join(d['libs'] + (
                ['v1'] if d.get('vlib') else [])) + ']'
            incs = ''
            inc_items = [r['t'] + '[1]' for r in d['ins']]
            if d.get('hdr'):
                inc_items.append("header_file('h2.h')")
            if inc_items:
                incs = ', includes=[%s]' % ', '.join(inc_items)
            if d.get('xdeps'):
                incs += ', extra_deps=[%s]' % ', '.join(
                    ref_expr({'f': '', 't': x}, decls) for x in d['xdeps'])
            if d.get('cdeps'):
                incs += ', extra_compile_deps=[%s]' % ', '.join(
                    ref_expr({'f': '', 't': x}, decls) for x in d['cdeps'])
            if d.get('pch'):
                incs += ', pch=%r' % ('pch_%s.h' % n)
            L.append("%s = %s(%r, %s, libs=%s%s)" % (n, fn, n, srcs, libs,
                                                      incs))
        elif k == 'step':
            outs = [n + '.c'] + ([n + '.h'] if d['nouts'] > 1 else [])
            ins = []
            for r in d['ins']:
                if r['f']:
                    ins.append('source_file(%s)' % ref_expr(r, decls))
                else:
                    ins.append(ref_expr(r, decls))
            cmd = "[R, 'STEP-%s'] + [%s] + [%s]" % (
                n, ', '.join(repr('--verif-touch=' + o) for o in outs),
                ', '.join(ins))
            xd = ''
            if d.get('xdeps'):
                xd = ', extra_deps=[%s]' % ', '.join(
                    ref_expr({'f': '', 't': x}, decls) for x in d['xdeps'])
            # every second step gives its command as several lines, the first
            # a plain string (the files named in the later line are consumed
            # all the same)
            form = 'cmd=%s' % cmd
            if n[1:].isdigit() and int(n[1:]) % 2 == 0:
                form = "cmds=['true', %s]" % cmd
            L.append("%s = build_step(%r, %s%s%s)" % (
                n, outs if len(outs) > 1 else outs[0], form,
                ', always_outdated=True' if d['always'] else '', xd))
        elif k == 'copy':
            xd = ''
            if d.get('xdeps'):
                xd = ', extra_deps=[%s]' % ', '.join(
                    ref_expr({'f': '', 't': x}, decls) for x in d['xdeps'])
            if d['ins'][0]['t']:
                L.append("%s = copy_file(%r, %s, mode=%r%s)" % (
                    n, 'cp_' + n + '.out', ref_expr(d['ins'][0], decls),
                    d.get('mode', 'copy'), xd))
            else:
                L.append("%s = copy_file(source_file(%s%s)%s)" % (
                    n, ref_expr(d['ins'][0], decls),
                    '' if d.get('dist', True) else ', dist=False', xd))
        elif k == 'alias':
            L.append("%s = alias(%r, [%s])" % (n, n, ', '.join(
                ref_expr({'f': '', 't': x}, decls) for x in d['deps'])))
        elif k == 'cmd':
            L.append("%s = command(%r, cmd=[R, 'CMD-%s'], extra_deps=[%s])" %
                     (n, n, n, ', '.join(ref_expr({'f': '', 't': x}, decls)
                                         for x in d['deps'])))
        elif k == 'tdeps':
            L.append("test_deps(%s)" % ', '.join(
                ref_expr({'f': '', 't': x}, decls) for x in d['deps']))
        elif k == 'test':
            if len(d['deps']) == 1:
                L.append("test(%s)" % d['deps'][0])
            else:           # further built files as arguments of the test
                L.append("test([%s])" % ', '.join(
                    ref_expr({'f': '', 't': x}, decls) for x in d['deps']))
        elif k == 'default':
            L.append("default(%s)" % ', '.join(
                ref_expr({'f': '', 't': x}, decls) for x in d['deps']))
        elif k == 'install':
            L.append("install(%s)" % ', '.join(d['deps']))
    return '\n'.join(L) + '\n'


def source_files(decls=()):
    f = _source_files()
    for d in decls:
        if d.get('pch'):
            f['pch_%s.h' % d['name']] = '#define PCH_%s 1\n' % d['name']
        if d.get('vlib'):
            f['libv1.a'] = '!<arch>\n'
    return f


def _source_files():
    return {
        's1.c': '// deps: h1.h\nint s1(void){return 1;}\n',
        's2.c': '// deps: h1.h\nint s2(void){return 2;}\n',
        's3.c': 'int s3(void){return 3;}\n',
        'h1.h': '#define H1 1\n',
        'h2.h': '#define H2 1\n',
        'd1.txt': 'data\n',
    }


def make_project(decls, backend, header='', extra_files=None):
    files = source_files(decls)
    files['build.bfg'] = bfg_text(decls, header)
    if extra_files:
        files.update(extra_files)
    p = regen.Proj(files, backend=backend)
    if any(d['kind'] == 'dlib' for d in decls):
        # library() makes a dual-use library only in this mode
        p.args += ['--enable-shared', '--enable-static']
    return p


def target_of_obj(path):
    """'libt2.int/s1.o' / 't3.int/t2.o' -> target name"""
    first = path.split('/')[0]
    if first.endswith('.int'):
        first = first[:-4]
    if first.startswith('lib'):
        first = first[3:]
    return first


class Runner:
    """drives one project: build goals, touch files, observe what ran"""

    def __init__(self, decls, backend, header=''):
        self.decls = decls
        self.backend = backend
        self.p = make_project(decls, backend, header)
        self.log = os.path.join(self.p.root, 'stub.log')
        self.outs = {d['name']: primary_output(d) for d in decls
                     if primary_output(d)}
        # the archive half of a dual-use library is a step of its own
        self.arnames = {d['name'] + '_a' for d in decls
                        if d['kind'] == 'dlib'}
        for d in decls:
            if d['kind'] == 'dlib':
                self.outs[d['name'] + '_a'] = 'lib%s.a' % d['name']

    def close(self):
        self.p.close()

    def configure(self):
        rc, out = self.p.configure()
        return {'ev': 'Configure', 'exit': rc, 'out': out[-300:] if rc else ''}

    def configure_with(self, env):
        """configure-time environment only (builds run without it)"""
        rc, out = self.p.configure(env=env)
        return {'ev': 'Configure', 'exit': rc, 'out': out[-300:] if rc else ''}

    def mtimes(self):
        m = {}
        for n, o in self.outs.items():
            try:     # (the link itself, not what it points to)
                m[n] = os.lstat(os.path.join(self.p.bld, o)).st_mtime_ns
            except OSError:
                m[n] = None
        return m

    def build(self, goal):
        if os.path.exists(self.log):
            os.remove(self.log)
        before = self.mtimes()
        self.p.tick()
        args = ['-k'] if self.backend == 'make' else ['-k', '0']
        rc, out = self.p.tool(args + [goal], env={'VERIF_LOG': self.log})
        after = self.mtimes()
        ran = {n for n in after if after[n] is not None and
               after[n] != before[n]}
        compiled = []
        if os.path.exists(self.log):
            for line in open(self.log):
                r = json.loads(line)
                argv = [bytes.fromhex(a).decode() for a in r['argv']]
                if r['kind'] == 'rec' and len(argv) > 1:
                    m = re.match(r'(STEP|CMD)-(\w+)$', argv[1])
                    if m:
                        ran.add(m.group(2))
                elif r['kind'] in ('cc', 'cxx') and '-c' in argv:
                    src = os.path.basename(argv[argv.index('-c') + 1])
                    obj = argv[argv.index('-o') + 1]
                    stem = src[:-2]
                    if stem.startswith('pch_'):       # precompiled header
                        compiled.append({'t': stem[4:],
                                         's': {'f': stem, 't': ''}})
                        continue
                    s = {'f': stem, 't': ''} if stem in ('s1', 's2', 's3') \
                        else {'f': '', 't': stem}
                    compiled.append({'t': target_of_obj(obj), 's': s})
        # steps that produced output without a STEP record (mtime only) are
        # already in `ran`; keep only declared targets
        names = {d['name'] for d in self.decls} | self.arnames
        return {'ev': 'Build', 'goal': goal, 'exit': rc,
                'ran': sorted(ran & names), 'compiled': compiled,
                'out': out[-400:] if rc else ''}

    def touch(self, f='', t=''):
        self.p.tick()
        if f:
            path = os.path.join(self.p.src, 'libv1.a' if f == 'v1' else f + (
                '.txt' if f == 'd1' else
                '.h' if f in ('h1', 'h2') or f.startswith('pch_') else '.c'))
        else:
            path = os.path.join(self.p.bld, self.outs[t])
        if not os.path.exists(path) or os.path.islink(path):
            return None     # (touching a link would touch what it points to)
        os.utime(path)
        if t:       # a step with two outputs: both are modified
            d = [x for x in self.decls if x['name'] == t][0]
            other = os.path.join(self.p.bld, t + '.h')
            if d['kind'] == 'step' and d['nouts'] > 1 and \
                    os.path.exists(other):
                os.utime(other)
        return {'ev': 'Touch', 'f': f, 't': t}
