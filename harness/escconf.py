"""Design-level conformance of the build-file writers' escape functions with
spec/Quote.tla (trace spec Escape_Trace.tla), shared by C01, C02 and C04.
Drift is information, never a verdict; the callers send the drifting inputs
through the real build tool (drift-directed cases)."""
import itertools
import random

from engine import validate_traces, syms

PUNCT = list('!"#$%&\'()*+,-.:;<=>?@[]^_`{|}~ ')
ALPHA = PUNCT + ['a', '1', '\\', '\t', '\u00e9']


def escape_calls(ck, only=None):
    """every word of length <= 2 (thorough: 3) over ALPHA plus seeded longer
    words, through the seven escape functions of the real writers"""
    from bfg9000.backends.make.syntax import Writer as MW, Syntax as MS
    from bfg9000.backends.ninja.syntax import Writer as NW, Syntax as NS
    from bfg9000.shell import posix as pshell
    rnd = random.Random(ck.seed)
    words = ['']
    for n in range(1, 3 if ck.quick else 4):
        words += [''.join(t) for t in itertools.product(ALPHA, repeat=n)]
    hot = ['\\', '#', '%', ':', ' ', '$', '~', '*', '|', "'", ',', 'a']
    for _ in range(1500 if ck.quick else 30000):
        words.append(''.join(rnd.choice(hot if rnd.random() < .7 else ALPHA)
                             for _ in range(rnd.randint(3, 6))))
    words = list(dict.fromkeys(words))
    fns = [('mk_target', lambda w: MW.escape_str(w, MS.target)),
           ('mk_dep', lambda w: MW.escape_str(w, MS.dependency)),
           ('mk_shell', lambda w: MW.escape_str(w, MS.shell)),
           ('mk_function', lambda w: MW.escape_str(w, MS.function)),
           ('nj_path', lambda w: NW.escape_str(w, NS.output)),
           ('nj_shell', lambda w: NW.escape_str(w, NS.shell)),
           ('sh_quote', pshell.quote)]
    if only:
        fns = [f for f in fns if f[0] in only]
    calls = []
    for w in words:
        for name, f in fns:
            try:
                out = f(w)
            except Exception as e:       # noqa: a raising writer drifts too
                out = '<<%s>>' % type(e).__name__
            calls.append((name, w, out))
    return calls


def escape_conformance(ck, only=None):
    calls = escape_calls(ck, only)
    traces = [{'id': i + 1, 'events': [{'fn': fn, 'arg': syms(w),
                                        'out': syms(out)}]}
              for i, (fn, w, out) in enumerate(calls)]
    rej, st = validate_traces('Escape_Trace', 'SPECIFICATION TraceSpec\n'
                              'CHECK_DEADLOCK FALSE\n', traces, chunk=6000)
    ck.states += st['distinct']
    ck.transitions += st['generated']
    ck.evaluations += len(traces)
    drift = [calls[tid - 1] for tid in sorted(rej)]
    ck.note('writer_calls_checked_against_Quote_tla', len(calls))
    ck.note('writer_design_drift', [list(d) for d in drift[:40]])
    for fn, w, out in drift[:10]:
        print('SPEC-DRIFT: %s(%r) = %r differs from Quote.tla' % (fn, w, out))
    return drift


