"""Shared driver for C01 (Make) and C02 (Ninja): declared arguments placed in
every argument position of generated build scripts, the real bfg9000, the real
build tool, recording stubs; returns one trace event per declared slot."""
import itertools
import json
import os
import random
import re
import shutil

from engine import (BIN, scratch, run, tool_env, syms, pmap, bfg_configure,
                    MachineryError)

PUNCT = list('!"#$%&\'()*+,-./:;<=>?@[\\]^_`{|}~')
SIGMA = PUNCT + ['a', '1', ' ', '\t', 'é']
HOT = list(' \t\'"\\$#%:;,=~*?[]()|&<') + ['a']
REC = os.path.join(BIN, 'rec')

# positions: name -> needs (restrictions on the word)
POSITIONS = ['cmd_arg', 'cmd_env', 'str_env', 'step_arg', 'step_env', 'test_arg',
             'test_env', 'drv_arg', 'copt_list', 'copt_str', 'lopt_list',
             'lopt_str', 'define', 'gopt', 'glopt', 'tool_word', 'cmd_word',
             'file_arg', 'sym_arg',
             'incdir', 'dep_link', 'symgen_arg', 'gopt_rep', 'wa_link']
PATHLIKE = ('cmd_word', 'file_arg', 'incdir', 'sym_arg', 'symgen_arg')
GLOBAL = ('gopt', 'glopt', 'gopt_rep')
# an argument inside the compiler command taken from $CC (one project each)
SINGLE = ('tool_word',)


def word_ok(pos, w):
    if pos in PATHLIKE:
        if not w or '/' in w or '\\' in w or w in ('.', '..') or \
                w.startswith('~'):
            return False
        if pos == 'cmd_word' and w.endswith(' '):
            pass
    if pos in ('sym_arg', 'symgen_arg'):
        # the file becomes a prerequisite of a rule: names outside the
        # characters below are C04's subject (and partly its known findings)
        if not all(c.isalnum() or c in ' $@+._-' for c in w) or \
                w != w.strip() or '  ' in w or w.startswith('-'):
            return False
    if pos == 'define' and w == '':
        return False      # define(name, '') is "no value" by API convention
    if pos in ('copt_str', 'lopt_str'):
        # the sub-language on which bfg's splitter and sh agree by design
        return True
    return True


def sh_user_quote(w):
    """how a user writes word w inside an option string (sh rules)"""
    if w == '':
        return "''"
    return '"\'"'.join("'" + p + "'" if p else '' for p in w.split("'")) \
        if "'" in w else "'" + w + "'"


_STYLE_OK = {}


def sh_user_quote_styled(w, n):
    """the same word as a user may write it inside an option string, in one
    of three styles chosen by the slot number: single quotes, bare (words made
    of characters that are literal inside a word, such as '#', '=' or ':'),
    double quotes.  Each
    (style, word) is confirmed once with the real /bin/sh; if sh does not
    give the word back, the single-quoted form is used."""
    style = n % 3
    if style == 0 or w == '' or '\n' in w:
        return sh_user_quote(w)
    # bfg9000's splitter knows quotes but (by design) no backslash escapes:
    # the styles stay inside the sub-language on which it and sh agree
    if style == 1:      # bare: only characters that are literal inside a word
        if not all(c.isalnum() or c in '#=:,@%+~./-_' or ord(c) > 127
                   for c in w) or w[0] in '#~':
            return sh_user_quote(w)
        text = w
    else:               # double quotes around text without " \ $ `
        if any(c in '"\\$`' for c in w):
            return sh_user_quote(w)
        text = '"' + w + '"'
    key = (style, w)
    if key not in _STYLE_OK:
        import subprocess
        r = subprocess.run(['/bin/sh', '-c', "printf '%s' " + text],
                           capture_output=True)
        _STYLE_OK[key] = r.returncode == 0 and \
            r.stdout == w.encode('utf-8', 'surrogateescape')
    return text if _STYLE_OK[key] else sh_user_quote(w)


class Slot:
    __slots__ = ('id', 'pos', 'word', 'key')

    def __init__(self, n, pos, word):
        self.id = 'K%06d' % n
        self.pos = pos
        self.word = word


def words_upto(alpha, n):
    for k in range(n + 1):
        for t in itertools.product(alpha, repeat=k):
            yield ''.join(t)


def sample_words(rnd, alpha, count, lo, hi):
    out = set()
    while len(out) < count:
        k = rnd.randint(lo, hi)
        out.add(''.join(rnd.choice(alpha) for _ in range(k)))
    return sorted(out)


def make_slots(words_by_pos):
    slots, n = [], 0
    for pos, words in words_by_pos.items():
        for w in words:
            if word_ok(pos, w):
                n += 1
                slots.append(Slot(n, pos, w))
    return slots


# ------------------------------------------------------------------ project
def write_project(root, slots, backend):
    src = os.path.join(root, 'src')
    bindir = os.path.join(root, 'wbin')
    os.makedirs(src)
    os.makedirs(bindir)
    L = ["project('p')", "R = %r" % REC]
    targets, tests = [], False
    drv = []
    for s in slots:
        w, i = s.word, s.id
        if s.pos == 'cmd_arg':
            L.append("command(%r, cmd=[R, %r, %r])" % ('c' + i, i, w))
            targets.append('c' + i)
        elif s.pos == 'cmd_env':
            L.append("command(%r, cmd=[R, %r], environment={'VV_E': %r})" %
                     ('c' + i, i, w))
            targets.append('c' + i)
        elif s.pos == 'str_env':
            # a command given as one shell string that starts two processes:
            # the declared environment applies to both
            L.append("command(%r, cmd=R + ' %sA && ' + R + ' %sB', "
                     "environment={'VV_E': %r})" % ('c' + i, i, i, w))
            targets.append('c' + i)
        elif s.pos == 'step_arg':
            L.append("build_step(%r, cmd=[R, %r, %r])" % (
                'o' + i + '.txt', i, w))
            targets.append('o' + i + '.txt')
        elif s.pos == 'step_env':
            L.append("build_step(%r, cmd=[R, %r], environment={'VV_E': %r})"
                     % ('o' + i + '.txt', i, w))
            targets.append('o' + i + '.txt')
        elif s.pos == 'test_arg':
            L.append("test([R, %r, %r])" % (i, w))
            tests = True
        elif s.pos == 'test_env':
            L.append("test([R, %r], environment={'VV_E': %r})" % (i, w))
            tests = True
        elif s.pos == 'drv_arg':
            drv.append(s)
            tests = True
        elif s.pos in ('copt_list', 'copt_str', 'define'):
            open(os.path.join(src, 's%s.c' % i), 'w').close()
            if s.pos == 'copt_list':
                o = repr(['-DVB=' + i, w, '-DVE=' + i])
            elif s.pos == 'copt_str':
                o = repr('-DVB=%s %s -DVE=%s' % (
                    i, sh_user_quote_styled(w, int(i[1:])), i))
            else:
                o = "['-DVB=%s', opts.define(%r, %r), '-DVE=%s']" % (
                    i, 'N' + i, w, i)
            L.append("object_file(file=%r, options=%s)" % ('s%s.c' % i, o))
            targets.append('s%s.o' % i)
        elif s.pos in ('lopt_list', 'lopt_str'):
            open(os.path.join(src, 's%s.c' % i), 'w').close()
            if s.pos == 'lopt_list':
                o = repr(['-DVB=' + i, w, '-DVE=' + i])
            else:
                o = repr('-DVB=%s %s -DVE=%s' % (
                    i, sh_user_quote_styled(w, int(i[1:])), i))
            L.append("executable(%r, [%r], link_options=%s)" % (
                'p' + i, 's%s.c' % i, o))
            targets.append('p' + i)
        elif s.pos == 'tool_word':
            open(os.path.join(src, 's%s.c' % i), 'w').close()
            L.append("object_file(file=%r, options=['-DVB=%s', '-DVE=%s'])" % (
                's%s.c' % i, i, i))
            targets.append('s%s.o' % i)
        elif s.pos == 'gopt':
            L.append("global_options(%r, lang='c')" % (
                ['-DGB=' + i, w, '-DGE=' + i],))
        elif s.pos == 'gopt_rep':
            # the same words given to two calls of global_options: both
            # calls' words arrive (nothing is "already there")
            for sfx in ('A', ''):
                L.append("global_options(%r, lang='c')" % (
                    ['-DGB=' + i + sfx, '-Xrep', w, '-DGE=' + i + sfx],))
        elif s.pos == 'wa_link':
            # a shared library made only of a whole archive: the archive is
            # named once on the link line
            open(os.path.join(src, 's%s.c' % i), 'w').close()
            L.append("_i = static_library(%r, [%r])" % ('I' + i, 's%s.c' % i))
            L.append("shared_library(%r, [], libs=[whole_archive(_i)], "
                     "link_options=%r)" % ('O' + i, ['-DVB=' + i, w,
                                                     '-DVE=' + i]))
            targets.append('libO%s.so' % i)
        elif s.pos == 'glopt':
            L.append("global_link_options(%r, family='native')" % (
                ['-DGB=' + i, w, '-DGE=' + i],))
        elif s.pos == 'cmd_word':
            os.symlink(REC, os.path.join(bindir, w))
            L.append("command(%r, cmd=[%r, %r])" % (
                'c' + i, os.path.join(bindir, w), i))
            targets.append('c' + i)
        elif s.pos == 'file_arg':
            os.makedirs(os.path.join(src, 'fa'), exist_ok=True)
            open(os.path.join(src, 'fa', w), 'a').close()
            L.append("command(%r, cmd=[R, %r, source_file(%r)])" % (
                'c' + i, i, 'fa/' + w))
            targets.append('c' + i)
        elif s.pos == 'sym_arg':
            # a symbolic-link copy of the file (with a user description): the
            # link tool receives the file's name as the link text
            os.makedirs(os.path.join(src, 'sy'), exist_ok=True)
            open(os.path.join(src, 'sy', w), 'a').close()
            L.append("copy_file(%r, source_file(%r), mode='symlink', "
                     "description='link it')" % ('l' + i, 'sy/' + w))
            targets.append('l' + i)
        elif s.pos == 'symgen_arg':
            # the same for a file made by a step of the build
            L.append("_g = build_step(%r, cmd=[R, %r])" % ('G' + w, 'g' + i))
            L.append("copy_file(%r, _g, mode='symlink')" % ('l' + i,))
            targets.append('l' + i)
        elif s.pos == 'dep_link':
            # a program with link options of its own that links to a shared
            # library declared WITHOUT options; only the program is a goal,
            # so the library is built on the program's behalf.  The slot's
            # event is about the library's link step: it receives nothing of
            # what was declared for the program.
            open(os.path.join(src, 's%s.c' % i), 'w').close()
            open(os.path.join(src, 'd%s.c' % i), 'w').close()
            open(os.path.join(src, 'q%s.c' % i), 'w').close()
            # (declared after a program without libraries: what is written
            # once per kind of step must not depend on who comes first)
            L.append("executable(%r, [%r])" % ('q' + i, 'q%s.c' % i))
            L.append("_d = shared_library(%r, [%r])" % ('D' + i, 'd%s.c' % i))
            L.append("executable(%r, [%r], libs=[_d], link_options=%r)" % (
                'p' + i, 's%s.c' % i, ['-DVB=' + i, w, '-DVE=' + i]))
            targets.append('p' + i)
        elif s.pos == 'incdir':
            os.makedirs(os.path.join(src, 'idir', w), exist_ok=True)
            open(os.path.join(src, 's%s.c' % i), 'w').close()
            L.append("object_file(file=%r, includes=[header_directory(%r)], "
                     "options=['-DVB=%s'])" % ('s%s.c' % i, 'idir/' + w, i))
            targets.append('s%s.o' % i)
    for k in range(0, len(drv), 12):
        grp = drv[k:k + 12]
        L.append("d%d = test_driver([R, %r])" % (k, 'DRV' + grp[0].id))
        for s in grp:
            L.append("test([R, %r, %r], driver=d%d)" % (s.id, s.word, k))
    if any(s.pos in GLOBAL for s in slots):
        open(os.path.join(src, 'g.c'), 'w').close()
        L.append("executable('gprog', ['g.c'])")
        targets.append('gprog')
    with open(os.path.join(src, 'build.bfg'), 'w') as f:
        f.write('\n'.join(L) + '\n')
    if tests:
        targets.append('test')
    return src, targets


def unhex(x):
    return bytes.fromhex(x).decode('utf-8', 'surrogateescape')


def read_log(path):
    recs = []
    if os.path.exists(path):
        for line in open(path):
            try:
                r = json.loads(line)
            except ValueError:
                continue
            recs.append({'kind': r['kind'],
                         'argv': [unhex(a) for a in r['argv']],
                         'cwd': unhex(r['cwd']),
                         'env': {unhex(k): unhex(v)
                                 for k, v in r['env'].items()}})
    return recs


def between(argv, a, b):
    if a in argv and b in argv and argv.index(a) < argv.index(b):
        return argv[argv.index(a) + 1:argv.index(b)]
    return None


def run_project(slots, backend, ninja=None):
    """-> (ok, {slot id: event}) ; ok False = build file unusable as a whole"""
    root = scratch('verif-args-')
    try:
        src, targets = write_project(root, slots, backend)
        bld = os.path.join(root, 'build')
        log = os.path.join(root, 'log')
        nlog = os.path.join(root, 'nlog')
        env = tool_env({'VERIF_NINJA_LOG': nlog, 'CC': os.path.join(BIN, 'stubcc'),
                        'CXX': os.path.join(BIN, 'stubcxx'),
                        'AR': os.path.join(BIN, 'stubar'),
                        'SYMLINK': os.path.join(BIN, 'symlog') + ' -sf',
                        'VERIF_LOG': log})
        for s in slots:
            if s.pos == 'tool_word':
                env['CC'] = env['CC'] + ' ' + sh_user_quote(s.word)
        if ninja:
            env['NINJA'] = ninja
        rc, out = bfg_configure(src, bld, env=env, backend=backend)
        if rc != 0:
            return False, 'configure: ' + out[-300:]
        if backend == 'make':
            cmd = ['make', '-k', '-i', '-j8', 'SHELL=' +
                   os.path.join(BIN, 'shlog')] + targets
        else:
            cmd = [ninja, '-k', '0', '--verif-shell',
                   os.path.join(BIN, 'shlog')] + targets
        rc, out = run(cmd, cwd=bld, env=env, timeout=900)
        recs = read_log(log)
        if backend == 'make' and re.search(r'^Makefile:\d+: \*\*\* ', out,
                                           re.M) and not recs:
            return False, 'make: ' + out[-300:]
        if backend == 'ninja' and rc == 3:
            return False, 'ninja: ' + out[-300:]
        # index the records
        byid, shlines, compiles, links = {}, [], [], []
        for r in recs:
            a = r['argv']
            if r['kind'] == 'sh':
                shlines.append(a[2] if len(a) > 2 else '')
            elif r['kind'] == 'rec':
                if len(a) > 1:
                    byid.setdefault(a[1], []).append(r)
            elif r['kind'] in ('cc', 'cxx'):
                (compiles if '-c' in a else links).append(r)
        events = {}
        njtext, njcmd = {}, {}
        if backend == 'ninja':
            ids = {s.id for s in slots if s.pos in ('cmd_arg', 'cmd_env',
                                                    'step_arg', 'step_env')}
            for line in open(os.path.join(bld, 'build.ninja')):
                if line.startswith('  cmd = '):
                    m = re.search(r'K\d{6}', line)
                    if m and m.group(0) in ids:
                        njtext[m.group(0)] = line[len('  cmd = '):-1]
            if os.path.exists(nlog):
                for line in open(nlog):
                    r = json.loads(line)
                    if r.get('cmd_binding'):
                        m = re.search(r'K\d{6}', r['cmd_binding'])
                        if m and m.group(0) in ids:
                            njcmd[m.group(0)] = r['cmd_binding']
        srcreal = os.path.realpath(src)
        for s in slots:
            i, w = s.id, s.word
            ev = {'pos': s.pos, 'declared': [syms(w)], 'delivered': [],
                  'started': False, 'nested': [], 'cmdline': [], 'argv': [],
                  'nj_text': [], 'nj_cmd': []}
            if i in njtext and i in njcmd:
                ev['nj_text'] = syms(njtext[i])
                ev['nj_cmd'] = syms(njcmd[i])
            if s.pos in ('cmd_arg', 'step_arg', 'test_arg'):
                rs = byid.get(i, [])
                if rs:
                    ev['started'] = True
                    ev['delivered'] = [syms(x) for x in rs[0]['argv'][2:]]
                    ev['argv'] = [syms(x) for x in rs[0]['argv']]
            elif s.pos == 'str_env':
                rs = byid.get(i + 'B', [])
                if rs and byid.get(i + 'A'):
                    ev['started'] = True
                    ev['delivered'] = ([syms(rs[0]['env']['VV_E'])]
                                       if 'VV_E' in rs[0]['env'] else [])
            elif s.pos in ('cmd_env', 'step_env', 'test_env'):
                rs = byid.get(i, [])
                if rs:
                    ev['started'] = True
                    ev['delivered'] = ([syms(rs[0]['env']['VV_E'])]
                                       if 'VV_E' in rs[0]['env'] else [])
            elif s.pos == 'cmd_word':
                rs = [r for r in recs if r['kind'] == 'rec' and
                      len(r['argv']) > 1 and r['argv'][1] == i]
                if rs:
                    ev['started'] = True
                    ev['delivered'] = [syms(os.path.basename(
                        rs[0]['argv'][0]))]
            elif s.pos == 'file_arg':
                rs = byid.get(i, [])
                ev['declared'] = [syms(os.path.join(srcreal, 'fa', w))]
                if rs:
                    ev['started'] = True
                    ev['delivered'] = [syms(os.path.realpath(os.path.join(
                        rs[0]['cwd'], x)) if os.path.exists(os.path.join(
                            rs[0]['cwd'], x)) else x)
                        for x in rs[0]['argv'][2:]]
            elif s.pos == 'sym_arg':
                rs = byid.get('l' + i, [])
                ev['declared'] = [syms(os.path.join(srcreal, 'sy', w))]
                if rs:
                    ev['started'] = True
                    # between the tool's own option and the link name
                    ev['delivered'] = [syms(os.path.realpath(os.path.join(
                        rs[0]['cwd'], x)) if os.path.exists(os.path.join(
                            rs[0]['cwd'], x)) else x)
                        for x in rs[0]['argv'][3:-1]]
            elif s.pos == 'drv_arg':
                ev['declared'] = []
                child = [REC, i, w]
                found = None
                for r in recs:
                    if r['kind'] == 'rec' and len(r['argv']) > 1 and \
                            r['argv'][1].startswith('DRV'):
                        for a in r['argv'][2:]:
                            if i in a:
                                found = a
                if found is not None:
                    ev['started'] = True
                    ev['nested'] = [{'arg': syms(found),
                                     'child': [syms(x) for x in child]}]
            elif s.pos in ('copt_list', 'copt_str', 'lopt_list', 'lopt_str',
                           'define', 'incdir'):
                pool = links if s.pos.startswith('lopt') else compiles
                rs = [r for r in pool if ('-DVB=' + i) in r['argv']]
                if s.pos == 'define':
                    ev['declared'] = [syms('-DN%s=%s' % (i, w))]
                if s.pos == 'incdir':
                    ev['declared'] = [syms(os.path.join(srcreal, 'idir', w))]
                if rs:
                    ev['started'] = True
                    a = rs[0]['argv']
                    if s.pos == 'incdir':
                        ev['delivered'] = [
                            syms(os.path.realpath(os.path.join(
                                rs[0]['cwd'], x[2:])))
                            for x in a if x.startswith('-I')]
                    else:
                        b = between(a, '-DVB=' + i, '-DVE=' + i)
                        ev['delivered'] = ([syms(x) for x in b]
                                           if b is not None else
                                           [syms('<<markers lost>>')])
            elif s.pos == 'symgen_arg':
                rs = byid.get('l' + i, [])
                ev['declared'] = [syms(os.path.join(
                    os.path.realpath(bld), 'G' + w))]
                if rs:
                    ev['started'] = True
                    ev['delivered'] = [syms(os.path.normpath(os.path.join(
                        os.path.realpath(rs[0]['cwd']), x)))
                        for x in rs[0]['argv'][3:-1]]
            elif s.pos == 'dep_link':
                ev['declared'] = []
                own = 'libD%s.so' % i
                rs = [r for r in links if '-o' in r['argv'] and
                      os.path.basename(r['argv'][r['argv'].index('-o') + 1])
                      == own]
                if rs:
                    ev['started'] = True
                    a = rs[0]['argv']
                    o = a.index('-o')
                    b = between(a, '-DVB=' + i, '-DVE=' + i)
                    leak = ['-DVB=' + i] + b + ['-DVE=' + i] \
                        if b is not None else \
                        [x for x in a if x in ('-DVB=' + i, '-DVE=' + i)]
                    # ... nor the program's libraries (the library itself)
                    leak += [x for k, x in enumerate(a) if k != o + 1 and
                             os.path.basename(x) == own]
                    ev['delivered'] = [syms(x) for x in leak]
                    # ... while the program's own link step is given the
                    # library (whatever was declared before it)
                    ps = [r for r in links if '-o' in r['argv'] and
                          os.path.basename(r['argv'][r['argv'].index('-o') +
                                                     1]) == 'p' + i]
                    if ps and not any(os.path.basename(x) == own
                                      for x in ps[0]['argv']):
                        ev['delivered'].append(syms(
                            '<<program linked without its library>>'))
            elif s.pos == 'tool_word':
                rs = [r for r in compiles if ('-DVB=' + i) in r['argv']]
                if rs:
                    ev['started'] = True
                    a = rs[0]['argv']
                    # everything between the program and bfg9000's own first
                    # argument (-x) is what $CC added
                    ev['delivered'] = [syms(x) for x in
                                       a[1:a.index('-x') if '-x' in a else 2]]
            elif s.pos == 'wa_link':
                own = 'libO%s.so' % i
                ev['declared'] = [syms('libI%s.a' % i)]
                rs = [r for r in links if '-o' in r['argv'] and
                      os.path.basename(r['argv'][r['argv'].index('-o') + 1])
                      == own]
                if rs:
                    ev['started'] = True
                    ev['delivered'] = [syms(os.path.basename(x))
                                       for x in rs[0]['argv']
                                       if os.path.basename(x) ==
                                       'libI%s.a' % i]
            elif s.pos in GLOBAL:
                if s.pos == 'gopt_rep':
                    ev['declared'] = [syms('-Xrep'), syms(w)]
                pool = links if s.pos == 'glopt' else compiles
                rs = [r for r in pool if ('-DGB=' + i) in r['argv']]
                if rs:
                    ev['started'] = True
                    b = between(rs[0]['argv'], '-DGB=' + i, '-DGE=' + i)
                    ev['delivered'] = ([syms(x) for x in b] if b is not None
                                       else [syms('<<markers lost>>')])
                elif pool:
                    ev['started'] = True     # the step ran, the option is gone
                    ev['delivered'] = [syms('<<markers lost>>')]
            for line in shlines:
                if i in line and '&&' not in line and len(line) < 400:
                    ev['cmdline'] = syms(line)
                    break
            events[i] = ev
        return True, events
    finally:
        shutil.rmtree(root, ignore_errors=True)


def run_bisect(slots, backend, ninja=None):
    ok, res = run_project(slots, backend, ninja)
    if ok:
        return res
    if len(slots) == 1:
        s = slots[0]
        return {s.id: {'pos': s.pos, 'declared': [syms(s.word)],
                       'delivered': [], 'started': False, 'nested': [],
                       'cmdline': [], 'argv': [], 'nj_text': [],
                       'nj_cmd': [], 'note': res}}
    h = len(slots) // 2
    out = run_bisect(slots[:h], backend, ninja)
    out.update(run_bisect(slots[h:], backend, ninja))
    return out


def run_all(slots, backend, ninja=None, per_project=250, seed=1):
    rnd = random.Random(seed)
    normal = [s for s in slots if s.pos not in GLOBAL + SINGLE]
    glob = [s for s in slots if s.pos in GLOBAL]
    rnd.shuffle(normal)
    groups = [normal[i:i + per_project]
              for i in range(0, len(normal), per_project)]
    # global options: several words share one variable assignment; keep the
    # groups small so that a truncating word takes few neighbours with it
    gg = {}
    for s in glob:
        gg.setdefault(s.pos, []).append(s)
    for pos, lst in gg.items():
        groups += [lst[i:i + 6] for i in range(0, len(lst), 6)]
    groups += [[s] for s in slots if s.pos in SINGLE]
    results = pmap(lambda g: run_bisect(g, backend, ninja), groups)
    events = {}
    for g, r in zip(groups, results):
        events.update(r)
    # a slot that failed inside a group is re-run alone, so that a neighbour's
    # failure (a truncated shared variable, an aborted `&&` chain of tests) is
    # never attributed to it
    redo = [s for s in slots if not ok_event(events[s.id])]
    LAST_REDO[:] = [(s.pos, s.word) for s in redo]
    if redo:
        for s, r in zip(redo, pmap(lambda s: run_bisect([s], backend, ninja),
                                   redo)):
            # a step that gets its arguments when it is alone in the script
            # but not next to the other steps is still a step that did not
            # get them: the property is about every script made of such steps
            for k, ev in r.items():
                if ok_event(ev) and not ok_event(events[k]):
                    events[k]['note'] = ('only next to other steps '
                                         '(passes alone)')
                else:
                    events[k] = ev
    return events


LAST_REDO = []


def ok_event(ev):
    if ev['pos'] == 'drv_arg':
        return ev['started']
    return ev['started'] and ev['delivered'] == ev['declared']
