#!/bin/sh
# usage: try_seed.sh <seed-id> <check-id> [extra check args]
# applies /verif/seeded/<seed-id>/patch.diff to /repo, runs the check, reverts.
id=$1; ck=$2; shift 2
cd /repo || exit 2
git diff --quiet || { echo "/repo has uncommitted changes"; exit 2; }
git apply /verif/seeded/$id/patch.diff || { echo "patch does not apply"; exit 2; }
cd /verif && ./check $ck "$@" > /tmp/seed_$id.log 2>&1; rc=$?
git -C /repo checkout -- . 
echo "seed=$id check=$ck exit=$rc"; grep -c '^VIOLATION' /tmp/seed_$id.log; grep '^VIOLATION\|MACHINERY' /tmp/seed_$id.log | head -5 | cut -c1-400
# restore the evidence file of the unchanged tree
git -C /verif checkout -- evidence/$ck.json 2>/dev/null
exit 0
