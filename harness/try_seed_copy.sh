#!/bin/sh
# usage: try_seed_copy.sh <seed-id> <check-id> [extra check args]
# like try_seed.sh but leaves /repo alone: the patch is applied to a scratch copy of /repo's working
# tree and the check is pointed at it (VERIF_REPO / VERIF_OUT development overrides of engine.py).
id=$1; ck=$2; shift 2
d=$(mktemp -d /tmp/mutXXXXXX)
rsync -a --exclude .git /repo/ $d/r/
(cd $d/r && patch -p1 -s < ${VERIF_DIR:-/verif}/seeded/$id/patch.diff) || { echo "patch does not apply"; rm -rf $d; exit 2; }
cd ${VERIF_DIR:-/verif} && VERIF_REPO=$d/r VERIF_OUT=$d/o ./check $ck "$@" > /tmp/seed_$id.log 2>&1; rc=$?
echo "seed=$id check=$ck exit=$rc"; grep -c '^VIOLATION' /tmp/seed_$id.log; grep '^VIOLATION\|MACHINERY\|SPEC-DRIFT' /tmp/seed_$id.log | head -5 | cut -c1-400
rm -rf $d
