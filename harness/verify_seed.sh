#!/bin/sh
# usage: verify_seed.sh <id>  -- confirms a seeded change in its scratch worktree /tmp/wt/<id>:
# demo passes without the patch, fails with it, and the stable baseline tests still pass with it.
id=$1; wt=/tmp/wt/$id; sd=${VERIF_DIR:-/verif}/seeded/$id
cd $wt || exit 2
git checkout -q -- bfg9000 2>/dev/null
demo=seed/demo.py; runner="/venv/bin/python"; [ -f seed/demo.sh ] && { demo=seed/demo.sh; runner=sh; }
$runner $demo > /tmp/seed_demo_$id.clean.log 2>&1; clean=$?
git apply $sd/patch.diff || { echo "patch failed"; exit 2; }
$runner $demo > /tmp/seed_demo_$id.patched.log 2>&1; patched=$?
python3 ${VERIF_DIR:-/verif}/harness/baseline_cmp.py $wt > /tmp/seed_base_$id.log 2>&1; base=$?
echo "seed $id: demo clean exit=$clean patched exit=$patched baseline_missing_exit=$base"; tail -1 /tmp/seed_base_$id.log | head -1; head -1 /tmp/seed_base_$id.log
