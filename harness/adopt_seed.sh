#!/bin/sh
# usage: adopt_seed.sh <id>: copy a sub-agent's deliverables from /tmp/wt/<id>/seed into ${VERIF_DIR:-/verif}/seeded/<id> and confirm them
id=$1
mkdir -p ${VERIF_DIR:-/verif}/seeded/$id
for f in patch.diff demo.py demo.sh notes.md; do [ -f /tmp/wt/$id/seed/$f ] && cp /tmp/wt/$id/seed/$f ${VERIF_DIR:-/verif}/seeded/$id/; done
sh ${VERIF_DIR:-/verif}/harness/verify_seed.sh $id
