"""C08 - automatic regeneration equals a fresh configure, and converges.
Specs: Regen.tla (design model), Regen_Gen.tla (all histories of the design
model up to a bound, with predicted outcomes), Regen_Trace.tla (contract).
Binding: (A) every TLC history is replayed on a real project (real edits,
real `make`, real bfg9000 regenerate --lazy) and each run is compared with a
fresh configure; (B) seeded histories over richer projects (find_files
variants, header_directory, submodules, options.bfg, pkg_config, toolchain
file) drawn from Regen_Hist.tla."""
import json
import os
import shutil

from engine import TreeBroken
from engine import (Check, tlc_ok, validate_traces, pmap, MachineryError)
import regen

TRACE = 'SPECIFICATION TraceSpec\nCHECK_DEADLOCK FALSE\n'


def gen_cfg(maxedits, names):
    return ('CONSTANTS Names = {%s} MaxClock = 60 AllowCrash = FALSE '
            'Fixed = TRUE Backend = "make" AtomicMk = FALSE MaxEdits = %d\nSPECIFICATION GSpec\nCONSTRAINT Bound\n'
            'INVARIANT Emit\nCHECK_DEADLOCK FALSE\n' % (
                ', '.join('"%s"' % n for n in names), maxedits))


def script_a(sver):
    pat = '*.c' if sver == 1 else 'gen/*.c'
    return ("project('p')\n"
            "for f in find_files(%r):\n"
            "    copy_file(f, directory='out')\n" % pat)


def attempt(p, must=True):
    before = p.outputs()
    rc, out = p.tool()
    frc, fresh, aux, fout = p.fresh()
    now = p.outputs()
    bf = os.path.basename(p.buildfile)
    return {'ev': 'Attempt', 'exit': rc,
            'fresh': frc == 0 and now == fresh,
            'diff': regen.diff_class(now, fresh) if frc == 0 else 'other',
            'unchanged': now.get(bf) == before.get(bf),
            'rewrote': now.get(bf) != before.get(bf),
            'must_succeed': bool(must and frc == 0),
            'tail': out[-300:] if rc else ''}


def replay_a(hist):
    """one history of Regen_Gen on a real project"""
    p = None
    events, preds = [], []
    try:
        for h in hist:
            op = h['op']
            if op == 'configure':
                files = {'build.bfg': script_a(h['sver'])}
                if h['g']:
                    files['gen'] = None
                p = regen.Proj(files)
                rc, out = p.configure()
                if rc != 0:
                    raise TreeBroken('configure: ' + out[-300:])
                continue
            if op == 'result':
                preds.append(h)
                continue
            if op == 'make':
                events.append(attempt(p))
                continue
            p.tick()
            d = p.src if h.get('d') != 'G' else os.path.join(p.src, 'gen')
            if op == 'add':
                regen.write(os.path.join(d, h['n'] + '.c'), 'int x;\n')
            elif op == 'remove':
                os.remove(os.path.join(d, h['n'] + '.c'))
            elif op == 'mkdir':
                os.mkdir(os.path.join(p.src, 'gen'))
            elif op == 'rmdir':
                shutil.rmtree(os.path.join(p.src, 'gen'))
            elif op == 'script':
                regen.write(os.path.join(p.src, 'build.bfg'),
                            script_a(h['sver']))
            events.append({'ev': 'Edit', 'op': op,
                           'path': h.get('d', '') + '/' + h.get('n', '')})
            p.tick()
        return events, preds
    finally:
        if p:
            p.close()


# ---------------------------------------------------------------- part B
def variant_files(v):
    f = {'main.c': 'int main(void){return 0;}\n',
         'lib/a.c': 'int a;\n', 'lib/a.h': 'int a;\n',
         'include/x.h': '#define X 1\n'}
    if v == 'find':
        f['build.bfg'] = ("project('p')\n"
                          "executable('prog', ['main.c'] + "
                          "find_files('lib/*.c'))\n")
    elif v == 'findrec':
        f['build.bfg'] = ("project('p')\n"
                          "executable('prog', ['main.c'] + find_files("
                          "'lib/**/*.c', extra='*.h', exclude='skip*'))\n")
    elif v == 'findrec2':
        # recursive without extra= (whose known dist-order difference would
        # end the validation of a history at its first regeneration)
        f['build.bfg'] = ("project('p')\n"
                          "executable('prog', ['main.c'] + find_files("
                          "'lib/**/*.c'))\n")
    elif v == 'hdrdir':
        f['build.bfg'] = ("project('p')\n"
                          "inc = header_directory('include', include='*.h')\n"
                          "executable('prog', ['main.c'], includes=[inc])\n"
                          "find_files('lib/*.c', type='*', "
                          "filter=filter_by_platform)\n")
    elif v == 'sub':
        f['build.bfg'] = ("project('p')\n"
                          "submodule('sub')\n"
                          "executable('prog', ['main.c'])\n")
        f['sub/build.bfg'] = ("static_library('s', find_files('*.c'))\n")
        f['sub/s.c'] = 'int s;\n'
        f['options.bfg'] = "argument('foo', default='x')\n"
    elif v == 'subsub':
        # root -> sub -> sub/detail, and a sibling submodule: every script is
        # an input of the regeneration
        f['build.bfg'] = ("project('p')\n"
                          "submodule('sub')\n"
                          "submodule('other')\n"
                          "executable('prog', ['main.c'])\n")
        f['sub/build.bfg'] = ("submodule('detail')\n"
                              "static_library('s', find_files('*.c'))\n")
        f['sub/detail/build.bfg'] = "static_library('d', ['d.c'])\n"
        f['sub/detail/d.c'] = 'int d;\n'
        f['other/build.bfg'] = "static_library('o', ['o.c'])\n"
        f['other/o.c'] = 'int o;\n'
        f['sub/s.c'] = 'int s;\n'
        f['options.bfg'] = "argument('foo', default='x')\n"
    elif v == 'pkg':
        f['build.bfg'] = ("project('p', version='1.0')\n"
                          "lib = static_library('foo', "
                          "find_files('lib/*.c'))\n"
                          "pkg_config('foo', version='1.0', libs=[lib])\n")
    elif v == 'toolchain':
        f['build.bfg'] = ("project('p')\n"
                          "executable('prog', ['main.c'] + "
                          "find_files('lib/*.c'))\n")
        f['../tc.bfg'] = ("environ['CFLAGS'] = environ.get('CFLAGS', '') + "
                          "' -DTC'\n"
                          "environ['LDFLAGS'] = '-Ltc'\n")
    elif v == 'hdrnodist':
        # a searched header directory that is installed but kept out of the
        # source distribution: its file list still feeds the install rules
        f['build.bfg'] = ("project('p')\n"
                          "inc = header_directory('include', include='*.h', "
                          "dist=False)\n"
                          "dd = directory('lib', include='*.c', dist=False)\n"
                          "executable('prog', ['main.c'], includes=[inc])\n"
                          "install(inc)\n")
    elif v == 'custom':
        # one search with a filter function of the script's own (which no
        # cache can replay) next to a plain, cacheable one
        f['build.bfg'] = ("project('p')\n"
                          "def no_tests(path):\n"
                          "    if path.basename().startswith('test_'):\n"
                          "        return FindResult.exclude\n"
                          "    return FindResult.include\n"
                          "hdrs = find_files('include/*.h')\n"
                          "executable('prog', ['main.c'] + find_files("
                          "'lib/*.c', filter=no_tests))\n")
    elif v == 'missingbase':
        f['build.bfg'] = ("project('p')\n"
                          "executable('prog', ['main.c'] + "
                          "find_files('gen/*.c'))\n")
    return f


EDITS = ['add_match', 'add_other', 'remove_match', 'rename_match',
         'mkdir_sub', 'add_in_sub', 'rmdir_sub', 'edit_script',
         'edit_options', 'edit_subscript', 'add_header', 'mkdir_gen',
         'add_gen']


def apply_edit(p, v, op, n):
    """returns the Edit event or None if not applicable in this state"""
    S = p.src
    lib = os.path.join(S, 'sub' if v in ('sub', 'subsub') else 'lib')
    j = os.path.join
    if op == 'add_match':
        regen.write(j(lib, 'n%d.c' % n), 'int n%d;\n' % n)
    elif op == 'add_other':
        regen.write(j(lib, 'notes%d.txt' % n), 'x\n')
    elif op == 'add_extra':
        # a file only the extra= glob of the search matches (not a result,
        # but part of the distribution list the build files carry)
        regen.write(j(lib, 'x%d.h' % n), '#define X%d 1\n' % n)
    elif op == 'remove_match':
        c = sorted(x for x in os.listdir(lib) if x.endswith('.c') and
                   x not in ('s.c',))
        if len(c) < 2:
            return None
        os.remove(j(lib, c[-1]))
    elif op == 'rename_match':
        c = sorted(x for x in os.listdir(lib) if x.endswith('.c'))
        if not c:
            return None
        os.rename(j(lib, c[-1]), j(lib, 'r%d.c' % n))
    elif op == 'mkdir_sub':
        if os.path.exists(j(lib, 'deep')):
            return None
        os.mkdir(j(lib, 'deep'))
    elif op == 'add_in_sub':
        if not os.path.exists(j(lib, 'deep')):
            return None
        regen.write(j(lib, 'deep', 'd%d.c' % n), 'int d%d;\n' % n)
    elif op == 'rmdir_sub':
        if not os.path.exists(j(lib, 'deep')):
            return None
        shutil.rmtree(j(lib, 'deep'))
    elif op == 'script_nofind_newsub':
        # the script stops searching altogether and gains a new submodule
        regen.write(j(S, 'build.bfg'), "project('p')\n"
                    "executable('prog', ['main.c'])\nsubmodule('newsub')\n")
        regen.write(j(S, 'newsub', 'build.bfg'),
                    "static_library('ns', ['ns.c'])\n")
        regen.write(j(S, 'newsub', 'ns.c'), 'int ns;\n')
    elif op == 'edit_newsub':
        if not os.path.exists(j(S, 'newsub', 'build.bfg')):
            return None
        with open(j(S, 'newsub', 'build.bfg'), 'a') as f:
            f.write("command('ns%d', cmd=['true'])\n" % n)
    elif op == 'rename_sub':
        if not os.path.exists(j(lib, 'deep')) or \
                os.path.exists(j(lib, 'deeper%d' % n)):
            return None
        os.rename(j(lib, 'deep'), j(lib, 'deeper%d' % n))
    elif op == 'edit_script':
        with open(j(S, 'build.bfg'), 'a') as f:
            f.write("command('c%d', cmd=['true'])\n" % n)
    elif op == 'edit_options':
        if not os.path.exists(j(S, 'options.bfg')):
            return None
        with open(j(S, 'options.bfg'), 'a') as f:
            f.write("argument('bar%d', default='y')\n" % n)
    elif op in ('edit_subscript', 'edit_subsubscript', 'edit_otherscript'):
        rel = {'edit_subscript': 'sub', 'edit_subsubscript': 'sub/detail',
               'edit_otherscript': 'other'}[op]
        if not os.path.exists(j(S, rel, 'build.bfg')):
            return None
        with open(j(S, rel, 'build.bfg'), 'a') as f:
            f.write("command('s%d', cmd=['true'])\n" % n)
    elif op == 'add_header':
        regen.write(j(S, 'include', 'h%d.h' % n), '#define H 1\n')
    elif op == 'edit_toolchain':
        if v != 'toolchain':
            return None
        with open(j(p.root, 'tc.bfg'), 'a') as f:
            f.write("environ['CPPFLAGS'] = '-DN%d'\n" % n)
    elif op == 'trim_toolchain':
        if v != 'toolchain':
            return None
        lines = open(j(p.root, 'tc.bfg')).read().splitlines(True)
        if len(lines) < 2:
            return None
        open(j(p.root, 'tc.bfg'), 'w').write(''.join(lines[:-1]))
    elif op == 'mkdir_gen':
        if os.path.exists(j(S, 'gen')):
            return None
        os.mkdir(j(S, 'gen'))
    elif op == 'add_gen':
        if not os.path.exists(j(S, 'gen')):
            return None
        regen.write(j(S, 'gen', 'g%d.c' % n), 'int g%d;\n' % n)
    return {'ev': 'Edit', 'op': op, 'path': ''}


def replay_b(case):
    v, backend, ops = case['variant'], case['backend'], case['edits']
    p = regen.Proj(variant_files(v), backend=backend)
    if v == 'toolchain':
        p.args = ['--toolchain', os.path.join(p.root, 'tc.bfg')]
    events = []
    try:
        rc, out = p.configure()
        if rc != 0:
            raise TreeBroken('configure %s: %s' % (v, out[-300:]))
        rc, out = p.tool()
        for n, op in enumerate(ops):
            p.tick()
            ev = apply_edit(p, v, op, n)
            if ev is None:
                continue
            events.append(ev)
            p.tick()
            events.append(attempt(p))
            events.append(attempt(p))
        return events
    finally:
        p.close()


def main(argv):
    ck = Check('C08', argv)
    # design model check: the known hole (missing base directory) is a
    # counterexample of the design model itself
    names = ['a'] if ck.quick else ['a', 'b']
    me = 2 if ck.quick else 3
    g = tlc_ok('Regen_Gen', gen_cfg(me, names), timeout=2400)
    ck.add_model(g, 'Regen_Gen: all histories with %d edits over %s' %
                 (me, names))
    hists = [p for p in g.prints if isinstance(p, list) and p and
             isinstance(p[0], dict) and p[0].get('op') == 'configure']
    if not hists:
        raise MachineryError('no histories\n' + g.tail())
    if not ck.quick and len(hists) > 1500:
        import random
        random.Random(ck.seed).shuffle(hists)
        hists = hists[:1500]
    resa = pmap(replay_a, hists)
    runs = []
    drift = 0
    for h, (events, preds) in zip(hists, resa):
        atts = [e for e in events if e['ev'] == 'Attempt']
        for a, pr in zip(atts, preds):
            if (a['exit'] == 0) != (pr['pc'] != 'failed') or \
                    (a['exit'] == 0 and a['fresh'] != pr['fresh']):
                drift += 1
        runs.append({'kind': 'design-history', 'hist': h, 'events': events})
    ck.drift = drift

    # part B
    nb = 40 if ck.quick else 600
    gb = tlc_ok('Regen_Hist', 'CONSTANTS NSeeds = %d SeedBase = %d\n'
                'SPECIFICATION GenSpec\nCHECK_DEADLOCK FALSE\n' %
                (nb, ck.seed))
    cases = [p for p in gb.prints if isinstance(p, dict) and 'variant' in p]
    if len(cases) < nb // 2:
        raise MachineryError('Regen_Hist gave %d cases\n%s' % (len(cases),
                                                               gb.tail()))
    # directed histories: the two-step shapes in which a first (irrelevant or
    # structural) change must not disable the detection of the second one
    directed = [['add_other', 'add_match'], ['mkdir_sub', 'add_in_sub'],
                ['add_match', 'remove_match'], ['add_other', 'rename_match'],
                ['edit_script', 'add_match'], ['add_header', 'add_match'],
                ['edit_options', 'add_other', 'add_match'],
                ['edit_toolchain', 'add_match'], ['mkdir_gen', 'add_gen'],
                # a searched directory disappears / is renamed
                ['mkdir_sub', 'add_in_sub', 'rmdir_sub', 'add_match'],
                ['mkdir_sub', 'add_in_sub', 'rename_sub', 'add_in_sub'],
                # a change only the extra= / not-now side of a search sees
                ['add_other', 'add_extra'], ['add_extra', 'add_match']]
    variants = ['find', 'findrec', 'findrec2', 'hdrdir', 'sub', 'pkg',
                'missingbase', 'toolchain', 'custom', 'hdrnodist']
    for v in variants:
        for b in (('make', 'ninja') if not ck.quick else ('make',)):
            for d in directed:
                cases.append({'variant': v, 'backend': b, 'edits': d})
    # the script stops searching (no cached search remains) and gains a
    # submodule, whose script is edited next
    for v in ('find', 'findrec2', 'hdrdir'):
        for b in ('make', 'ninja'):
            cases.append({'variant': v, 'backend': b, 'edits': [
                'script_nofind_newsub', 'edit_newsub', 'edit_newsub']})
    # every script of a tree of submodules is an input of the regeneration
    for v in ('sub', 'subsub'):
        for b in ('make', 'ninja'):
            for d in (['edit_subscript'], ['edit_subsubscript'],
                      ['edit_otherscript'], ['edit_options'],
                      ['edit_subscript', 'edit_subsubscript', 'add_match']):
                cases.append({'variant': v, 'backend': b, 'edits': d})
    if ck.quick:
        for v in ('sub', 'pkg', 'findrec'):
            cases.append({'variant': v, 'backend': 'ninja',
                          'edits': ['add_other', 'add_match']})
    resb = pmap(replay_b, cases)
    for c, events in zip(cases, resb):
        runs.append({'kind': 'variant-history', 'hist': c, 'events': events})

    traces = [{'id': i + 1, 'events': [
        {k: v for k, v in e.items() if k != 'tail'}
        for e in r['events']]}
        for i, r in enumerate(runs)]
    rej, st = validate_traces('Regen_Trace', TRACE, traces, chunk=100)
    ck.traces = len(traces)
    ck.evaluations = sum(1 for t in traces for e in t['events']
                         if e['ev'] == 'Attempt')
    ck.states += st['distinct']
    ck.transitions += st['generated']
    verdicts = sorted(rej.items()) + sorted(
        (x[0], [x[1], x[2], x[3]]) for x in {tuple(map(
            lambda y: y if not isinstance(y, list) else tuple(y), z))
            for z in st['soft']})
    for tid, info in verdicts:
        r = runs[tid - 1]
        ev = r['events'][info[1] - 1]
        prev = [e for e in r['events'][:info[1] - 1] if e['ev'] == 'Edit']
        lastop = prev[-1]['op'] if prev else 'none'
        if r['kind'] == 'design-history':
            # was the pattern's literal base directory missing when the build
            # files were last generated?
            g, sver, missing, ai = False, 1, False, 0
            atts = [e for e in r['events'] if e['ev'] == 'Attempt']
            for h in r['hist']:
                if h['op'] == 'configure':
                    g, sver = h['g'], h['sver']
                    missing = sver == 2 and not g
                elif h['op'] == 'mkdir':
                    g = True
                elif h['op'] == 'rmdir':
                    g = False
                elif h['op'] == 'script':
                    sver = h['sver']
                elif h['op'] == 'make':
                    if atts[ai] is ev:
                        break
                    if atts[ai]['rewrote']:
                        missing = sver == 2 and not g
                    ai += 1
            key = 'C08:%s:design:%s:%s' % (
                info[0], lastop, 'base-missing-at-last-generation'
                if missing else 'pattern=%s' % ('lib' if sver == 1 else 'gen'))
        else:
            key = 'C08:%s:%s:%s:%s' % (info[0], r['hist']['variant'],
                                       r['hist']['backend'], lastop)
            if ev.get('diff') == 'dist-order':
                key = 'C08:%s:dist-order-only:%s' % (info[0],
                                                     r['hist']['variant'])
        ck.report(key, '%s after edit %s: %s; history %s' % (
            info[0], lastop, json.dumps(ev), json.dumps(r['hist'])), r)
    ck.sample(runs[0])
    ck.sample(runs[-1])
    ck.note('design_histories', len(hists))
    ck.note('variant_histories', len(cases))
    ck.assumptions += ['stub compilers, tick barrier between steps',
                       'fresh = fresh configure of the current tree into '
                       'the same build directory path']
    ck.finish(rule='(A) every history of the design model Regen.tla with %d '
              'edits over names %s (exhaustive%s), (B) seeded histories over '
              'six project variants x two backends; each edit is followed by '
              'two runs of the backend and a fresh-configure comparison; '
              'non-trivial = history with at least one edit' % (
                  me, names, '' if ck.quick else ', sampled to 1500'),
              distinct_nontrivial=len(runs))
