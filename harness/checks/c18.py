"""C18 - the source distribution contains everything the build reads from the
source directory.  Specs: Script.tla + Script_Gen.tla (scripts),
Dist_Trace.tla (contract: the set of named files is computed by TLC from the
abstract script).  Binding: real configure, real `make dist` (doppel), tar
listing, scan of the build file for source-dir paths, unpack + configure."""
import json
import os
import re
import shlex
import shutil
import subprocess

from engine import Check, validate_traces, pmap, run
import scriptgen as sg
import regen
from zoo import ZOO, ZOO_NAMED, ZOO_NODIST, zoo_files

TRACE = 'SPECIFICATION TraceSpec\nCHECK_DEADLOCK FALSE\n'
TRAILER = '''
hdr = header_file('listed.h')
inc = header_directory('incdir', include='*.h')
found = find_files('extra/*.c', extra='*.md')
plat = find_files('plat/*.c', filter=filter_by_platform)
nocache = find_paths('nc/*.txt', extra='*.md', cache=False)
executable('fromfound', found + ['zz.c'], includes=[hdr, inc])
extra_dist(files=['README.md'], dirs=['docs'])
generic_file('hidden.txt', dist=False)
submodule('sub')
# an optional component whose script gives up: it was read all the same
try:
    submodule('optmod')
except Exception:
    pass
''' + ZOO
FIXED = ['build.bfg', 'options.bfg', 'sub/build.bfg', 'sub/subsrc.c',
         'optmod/build.bfg', 'optmod/early.txt',
         'listed.h', 'incdir/i1.h', 'extra/e1.c', 'extra/e2.c',
         'extra/notes.md', 'plat/p_linux.c', 'plat/p_windows.c', 'zz.c',
         'README.md', 'nc/n1.txt', 'nc/n.md'] + ZOO_NAMED
NODIST = ['hidden.txt'] + ZOO_NODIST


def files_for(decls):
    f = sg.source_files(decls)
    f['build.bfg'] = sg.bfg_text(decls) + TRAILER
    f['options.bfg'] = "argument('foo', default='x')\n"
    f['sub/build.bfg'] = "static_library('subl', ['subsrc.c'])\n"
    f['sub/subsrc.c'] = 'int subsrc;\n'
    f['optmod/build.bfg'] = ("generic_file('early.txt')\n"
                             "raise RuntimeError('not available')\n")
    f['optmod/early.txt'] = 'e\n'
    f['listed.h'] = '#define L 1\n'
    f['incdir/i1.h'] = '#define I 1\n'
    f['incdir/skip.txt'] = 'x\n'
    f['extra/e1.c'] = 'int e1;\n'
    f['extra/e2.c'] = 'int e2;\n'
    f['extra/notes.md'] = 'n\n'
    f['plat/p_linux.c'] = 'int pl;\n'
    f['plat/p_windows.c'] = 'int pw;\n'
    f['nc/n1.txt'] = 'n\n'
    f['nc/n.md'] = 'n\n'
    f.update(zoo_files())
    f['zz.c'] = 'int main(void){return 0;}\n'
    f['README.md'] = 'r\n'
    f['docs/d.txt'] = 'd\n'
    f['hidden.txt'] = 'h\n'
    f['unrelated.txt'] = 'u\n'
    return f


def listing(root):
    out = []
    for dp, dns, fns in os.walk(root):
        for n in fns:
            out.append(os.path.relpath(os.path.join(dp, n), root))
    return sorted(out)


def norm_mk(text, src):
    return text.replace(src, '<SRC>')


def run_case(decls):
    p = regen.Proj(files_for(decls))
    try:
        ev = {'decls': decls, 'fixed': FIXED, 'nodist': NODIST,
              'members': [], 'srctree': listing(p.src), 'refs': [],
              'dist_exit': -1, 'reconf_exit': -1, 'reconf_equal': False,
              'later_exit': 0, 'later_missing': [],
              'other_formats_missing': []}
        rc, out = p.configure()
        if rc != 0:
            ev['note'] = out[-300:]
            return ev
        mk = open(p.buildfile).read()
        refs = set()
        for m in re.finditer(r"\$\(srcdir\)/([^\s'\";|)]+)", mk):
            r = m.group(1)
            if os.path.isfile(os.path.join(p.src, r)):
                refs.add(os.path.normpath(r))
        ev['refs'] = sorted(refs)
        rc, out = p.tool(['dist'])
        ev['dist_exit'] = rc
        tars = [x for x in os.listdir(p.bld) if x.endswith('.tar.gz')]
        if rc == 0 and tars:
            t = os.path.join(p.bld, tars[0])
            lst = subprocess.run(['tar', '-tzf', t], capture_output=True,
                                 text=True).stdout.split()
            mem = []
            for x in lst:
                parts = x.split('/', 1)
                if len(parts) == 2 and parts[1] and not x.endswith('/'):
                    mem.append(os.path.normpath(parts[1]))
            ev['members'] = sorted(mem)
            # the other archive formats hold the same members
            import tarfile
            import zipfile
            for tgt, suffix in (('dist-bzip2', '.tar.bz2'),
                                ('dist-zip', '.zip')):
                rcx, outx = p.tool([tgt])
                arch = [x for x in os.listdir(p.bld) if x.endswith(suffix)]
                names = []
                if rcx == 0 and arch:
                    a = os.path.join(p.bld, arch[0])
                    try:
                        if suffix == '.zip':
                            names = zipfile.ZipFile(a).namelist()
                        else:
                            names = tarfile.open(a).getnames()
                    except Exception:      # noqa: an unreadable archive
                        names = []
                got = {os.path.normpath(x.split('/', 1)[1]) for x in names
                       if '/' in x and x.split('/', 1)[1] and
                       not x.endswith('/')}
                got = {x for x in got if not os.path.isdir(
                    os.path.join(p.src, x))}
                ev['other_formats_missing'] += [
                    tgt + ':' + m for m in sorted(set(mem) - got)][:5]
            un = os.path.join(p.root, 'unpacked')
            os.makedirs(un)
            subprocess.run(['tar', '-xzf', t, '-C', un], check=False)
            top = os.path.join(un, os.listdir(un)[0])
            # dist=False files are knowingly absent: supply them so that the
            # comparison is about everything else
            for nd in NODIST + [f for f in ('d1.txt', 's3.c')
                                if not os.path.exists(os.path.join(top, f))]:
                if os.path.exists(os.path.join(p.src, nd)):
                    shutil.copy(os.path.join(p.src, nd),
                                os.path.join(top, nd))
            if not os.path.exists(os.path.join(top, 'h1.h')):
                shutil.copy(os.path.join(p.src, 'h1.h'), top)
            b2 = os.path.join(p.root, 'build2')
            rc2, out2 = run(['/venv/bin/bfg9000', 'configure', b2,
                             '--no-resolve-packages', '--backend=make'],
                            cwd=top, env=p.env)
            ev['reconf_exit'] = rc2
            if rc2 == 0:
                mk2 = open(os.path.join(b2, 'Makefile')).read()
                ev['reconf_equal'] = norm_mk(mk, p.src) == norm_mk(mk2, top)
            else:
                ev['note'] = out2[-300:]
        else:
            ev['note'] = out[-300:]
        # the tree changes after configuration: a new file in the extra_dist
        # directory, a new match of find_files and a new extra= file; the
        # dist target of the (regenerating) build tool must pick them up
        if rc == 0 and tars:
            ev['later_exit'] = 0
            ev['later_missing'] = []
            # one change at a time (a change in one watched directory would
            # regenerate everything and hide an unwatched one)
            # (the cache=False search of nc/ is by design not watched)
            for new in (['docs/later.txt'], ['extra/later.md'],
                        ['extra/e9.c']):
                p.tick()
                for n in new:
                    regen.write(os.path.join(p.src, n), 'int later;\n'
                                if n.endswith('.c') else 'later\n')
                for x in os.listdir(p.bld):
                    if x.endswith('.tar.gz'):
                        os.remove(os.path.join(p.bld, x))
                p.tick()
                rc3, out3 = p.tool(['dist'])
                t3 = [x for x in os.listdir(p.bld) if x.endswith('.tar.gz')]
                mem3 = []
                if rc3 == 0 and t3:
                    lst = subprocess.run(['tar', '-tzf', os.path.join(
                        p.bld, t3[0])], capture_output=True,
                        text=True).stdout.split('\n')
                    mem3 = [os.path.normpath(x.split('/', 1)[1]) for x in lst
                            if '/' in x and x.split('/', 1)[1] and
                            not x.endswith('/')]
                ev['later_exit'] = ev['later_exit'] or rc3
                ev['later_missing'] += [n for n in new if n not in mem3]
                if rc3 and not ev.get('note'):
                    ev['note'] = out3[-300:]
        return ev
    finally:
        p.close()


def main(argv):
    ck = Check('C18', argv)
    n = 30 if ck.quick else 600
    scripts, g = sg.generate(n, ck.seed + 18, 6 if ck.quick else 8)
    ck.add_model(g, 'Script_Gen: %d scripts' % len(scripts))
    res = pmap(run_case, scripts)
    traces = [{'id': i + 1, 'events': [
        {k: v for k, v in e.items() if k != 'note'}]}
        for i, e in enumerate(res)]
    rej, st = validate_traces('Dist_Trace', TRACE, traces, chunk=60)
    ck.traces = len(traces)
    ck.evaluations = len(traces)
    ck.states += st['distinct']
    ck.transitions += st['generated']
    for tid, info in sorted(rej.items()):
        e = res[tid - 1]
        ck.report('C18:%s:%s' % (info[0], '+'.join(sorted(
            str(x) for x in info[2])) if isinstance(info[2], list) else ''),
            '%s: %s %s\n%s' % (info[0], json.dumps(info[2]),
                               e.get('note', ''), sg.bfg_text(e['decls'])),
            e)
    ck.sample({'build.bfg': sg.bfg_text(scripts[0]) + TRAILER,
               'members': res[0]['members']})
    ck.assumptions += [
        'headers that are only #included (h1.h) are not required members',
        'dist=False files are copied into the unpacked tree before the '
        're-configure comparison (their absence is what the script asked for)',
        'a header_directory with an include pattern distributes the matched '
        'files; extra_dist(dirs=) distributes the directory entry']
    ck.finish(rule='projects = Script_Gen scripts + a fixed trailer (listed '
              'header, header_directory(include=), find_files with extra / '
              'filter_by_platform / cache=False, extra_dist, dist=False file, '
              'submodule, options.bfg); non-trivial = script naming at least '
              'one source file', distinct_nontrivial=len(traces))
