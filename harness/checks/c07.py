"""C07 - real-toolchain builds are incremental and survive header changes.
Specs: Incr.tla (sources, headers, mutable include relation, object values),
Incr_Gen.tla (edit/build histories), Incr_Trace.tla (every recorded build is
compared with the model: exactly the stale objects recompile, the program's
output is current, the build always proceeds).  Binding: real files, the real
bfg9000, real make / reference ninja, real gcc behind a logging wrapper, real
depfixer; header names with blanks and Make-special characters, restricted at
run time to the names whose gcc depfile a hand-written Makefile can consume."""
import json
import os
import re
import shutil
import stat
import subprocess

from engine import (Check, tlc_ok, validate_traces, pmap, run, tool_env, BIN,
                    scratch, MachineryError)
import regen

CANDIDATES = ['plain.h', 'sp ace.h', 'ha#sh.h', 'do$llar.h', 'per%cent.h',
              'ti~lde.h', 'pa(ren).h', 'eq=ual.h', 'com,ma.h', 'co:lon.h',
              'am&p.h', "quo'te.h", 'st*ar.h', 'br[ack].h', 'sub dir/in.h',
              'p%c%t.h', 'inc%1/conf%.h', '%%.h']


HSET = {False: 'H = {"h1", "h2", "h3"} Pch = ""',
        True: 'H = {"h0", "h1", "h2"} Pch = "h0"'}


def gen_cfg(n, seed, maxedits, pch=False):
    return ('CONSTANTS S = {"s1", "s2"} %s MaxEdits = %d '
            'NSeeds = %d SeedBase = %d\nSPECIFICATION GenSpec\n'
            'INVARIANT Emit\nCHECK_DEADLOCK FALSE\n' % (
                HSET[pch], maxedits, n, seed))


def trace_cfg(pch):
    return ('CONSTANTS S = {"s1", "s2"} %s MaxEdits = 1000\n'
            'SPECIFICATION TraceSpec\nCHECK_DEADLOCK FALSE\n' % HSET[pch])


def make_wrapper(root):
    w = os.path.join(root, 'gcclog')
    with open(w, 'w') as f:
        f.write('#!/bin/sh\nif [ -n "$VERIF_CCLOG" ]; then\n'
                '  for a in "$@"; do case "$a" in *.c) echo "$a" >> '
                '"$VERIF_CCLOG";; esac; done\nfi\nexec gcc "$@"\n')
    os.chmod(w, 0o755)
    return w


def reference_ok(name):
    """can GNU Make consume gcc's own depfile for a header of this name
    (hand-written Makefile, no bfg9000 involved)?"""
    root = scratch('verif-c07ref-')
    try:
        os.makedirs(os.path.join(root, os.path.dirname(name) or '.'),
                    exist_ok=True)
        open(os.path.join(root, name), 'w').write('#define V 1\n')
        open(os.path.join(root, 'main.c'), 'w').write(
            '#include "%s"\nint main(void){return V-1;}\n' % name)
        open(os.path.join(root, 'Makefile'), 'w').write(
            'prog.o: main.c\n\tgcc -MMD -MF prog.o.d -c main.c -o prog.o\n'
            '\t@echo COMPILED\n-include prog.o.d\n')
        env = tool_env()
        rc, out = run(['make', 'prog.o'], cwd=root, env=env)
        if rc != 0 or 'COMPILED' not in out:
            return False
        rc, out = run(['make', 'prog.o'], cwd=root, env=env)
        if rc != 0 or 'COMPILED' in out:
            return False
        regen.tick(root)
        os.utime(os.path.join(root, name))
        rc, out = run(['make', 'prog.o'], cwd=root, env=env)
        return rc == 0 and 'COMPILED' in out
    finally:
        shutil.rmtree(root, ignore_errors=True)


class Files:
    def __init__(self, src, names, s2='s2.c'):
        self.src = src
        self.s2 = s2              # where the second source lives
        self.names = names          # h1.. -> concrete name
        self.pch = 'h0' if 'h0' in names else None
        self.ver = dict({'s1': 1, 's2': 1}, **{h: 1 for h in names})
        self.inc = {'s1': {self.pch} - {None}, 's2': {self.pch} - {None}}
        self.hinc = {h: set() for h in names}

    def path(self, f):
        if f == 's2':
            return os.path.join(self.src, self.s2)
        return os.path.join(self.src, (f + '.c') if f.startswith('s')
                            else self.names[f])

    def write(self, f):
        p = self.path(f)
        os.makedirs(os.path.dirname(p), exist_ok=True)
        with open(p, 'w') as o:
            if f.startswith('s'):
                for h in sorted(self.inc[f]):
                    if h != self.pch:     # bfg9000 passes -include for it
                        o.write('#include "%s"\n' % self.names[h])
                o.write('int val_%s(void) { return %d%s; }\n' % (
                    f, self.ver[f], ''.join(' + T_%s' % h
                                            for h in sorted(self.inc[f]))))
            else:
                up = os.path.relpath(self.src, os.path.dirname(p))
                for g in sorted(self.hinc[f]):
                    o.write('#include "%s"\n' % os.path.normpath(
                        os.path.join(up, self.names[g])))
                o.write('#undef T_%s\n#define T_%s (%d%s)\n' % (
                    f, f, self.ver[f], ''.join(' + T_%s' % g
                                               for g in sorted(self.hinc[f]))))


def replay(arg):
    hist, backend, names = arg
    names = dict(names)
    # the second source (and so its object and depfile) may live under a
    # path with characters the Makefile writer escapes
    s2 = names.pop('_s2', 's2.c')
    # a generator step with two outputs (a source compiled into the program
    # and a header every object is compiled against) is part of the project
    gen = names.pop('_gen', '')
    # the include directory is a header_directory searched recursively (its
    # sub-directories are watched by the build files); a deleted header
    # takes its then empty directory with it
    hd = names.pop('_hd', '')
    pch = ", pch=precompiled_header(file='pch.h', includes=['.'])" \
        if 'h0' in names else ''
    files = {'build.bfg': "project('p')\nexecutable('prog', "
             "['main.c', 's1.c', %r], includes=['.']%s)\n" % (s2, pch),
             'main.c': '#include <stdio.h>\nint val_s1(void);'
             'int val_s2(void);\nint main(void){printf("%d\\n", '
             'val_s1() + val_s2());return 0;}\n'}
    if gen:
        files['build.bfg'] = (
            "project('p')\ng = build_step(['gen.c', 'gen.h'], cmd=['sh', "
            "source_file('mkgen.sh')])\nexecutable('prog', ['main.c', "
            "'s1.c', %r, g[0]], includes=['.', g[1]]%s)\n" % (s2, pch))
        files['mkgen.sh'] = ('echo "#define GEN 0" > gen.h\n'
                             'printf \'#include "gen.h"\\nint val_gen(void)'
                             '{return GEN;}\\n\' > gen.c\n')
        files['main.c'] = files['main.c'].replace(
            'int main', 'int val_gen(void);int main').replace(
            'val_s2());', 'val_s2() + val_gen());')
    if hd:
        files['build.bfg'] = files['build.bfg'].replace(
            "includes=['.'", "includes=[header_directory('.', "
            "include='**/*.h')")
    p = regen.Proj(files, backend=backend)
    try:
        fs = Files(p.src, names, s2)
        for f in ['s1', 's2'] + sorted(names):
            fs.write(f)
        wrapper = make_wrapper(p.root)
        p.env['CC'] = wrapper
        p.env.pop('CXX', None)
        p.env.pop('AR', None)
        rc, out = p.configure()
        if rc != 0:
            return [{'op': 'build', 'f': '', 'g': '', 'exit': 100 + rc,
                     'compiled': [], 'output': -1, 'note': out[-300:]}]
        cclog = os.path.join(p.root, 'cc.log')
        events = []
        for h in hist:
            op = h['op']
            if op == 'build':
                if os.path.exists(cclog):
                    os.remove(cclog)
                p.tick()
                rc, out = p.tool(env={'VERIF_CCLOG': cclog})
                compiled = []
                if os.path.exists(cclog):
                    for line in open(cclog):
                        b = os.path.basename(line.strip())
                        if b == 's1.c':
                            compiled.append('s1')
                        elif b == os.path.basename(s2):
                            compiled.append('s2')
                output = -1
                prog = os.path.join(p.bld, 'prog')
                if rc == 0 and os.path.exists(prog):
                    r = subprocess.run([prog], capture_output=True, text=True)
                    try:
                        output = int(r.stdout.strip())
                    except ValueError:
                        pass
                events.append({'op': 'build', 'f': '', 'g': '', 'exit': rc,
                               'compiled': compiled, 'output': output,
                               'note': out[-400:] if rc else ''})
                continue
            p.tick()
            f, g = h['f'], h['g']
            if op == 'modify':
                fs.ver[f] += 1
                fs.write(f)
            elif op == 'addinc':
                fs.inc[f].add(g)
                fs.ver[f] += 1
                fs.write(f)
            elif op == 'dropinc':
                fs.inc[f].discard(g)
                fs.ver[f] += 1
                fs.write(f)
            elif op == 'addhinc':
                fs.hinc[f].add(g)
                fs.ver[f] += 1
                fs.write(f)
            elif op == 'drophinc':
                fs.hinc[f].discard(g)
                fs.ver[f] += 1
                fs.write(f)
            elif op == 'delete':
                os.remove(fs.path(f))
                fs.hinc[f] = set()
                d_ = os.path.dirname(fs.path(f))
                while hd and d_ != p.src and not os.listdir(d_):
                    os.rmdir(d_)
                    d_ = os.path.dirname(d_)
            elif op == 'recreate':
                fs.ver[f] += 1
                fs.write(f)
            elif op == 'clean':
                p.tool(['clean'] if backend == 'make' else ['-t', 'clean'])
            events.append({'op': op, 'f': f, 'g': g})
        return events
    finally:
        p.close()


def big_project(arg):
    """many sources: build, clean (nothing of the build may be left), build
    (everything is back), change the common header (every object
    recompiles, the program prints the new value)"""
    backend, n = arg
    files = {'common.h': '#define K 1\n',
             'main.c': '#include <stdio.h>\n' + ''.join(
                 'int f%d(void);' % i for i in range(n)) +
             '\nint main(void){int t = 0;' + ''.join(
                 't += f%d();' % i for i in range(n)) +
             'printf("%d\\n", t);return 0;}\n',
             'build.bfg': "project('p')\nexecutable('prog', ['main.c'] + "
             "['f%%d.c' %% i for i in range(%d)], includes=['.'])\n" % n}
    for i in range(n):
        files['f%d.c' % i] = ('#include "common.h"\nint f%d(void)'
                              '{return K;}\n' % i)
    p = regen.Proj(files, backend=backend)
    ev = {'op': 'big', 'f': '', 'g': '', 'exit': -1, 'left': [],
          'missing': [], 'recompiled': -1, 'nsources': n, 'output': -1,
          'want': 2 * n, 'note': ''}
    try:
        wrapper = make_wrapper(p.root)
        p.env['CC'] = wrapper
        for k in ('CXX', 'AR'):
            p.env.pop(k, None)
        rc, out = p.configure()
        if rc == 0:
            rc, out = p.tool(['-j8'])
        if rc != 0:
            ev['exit'], ev['note'] = 100 + rc, out[-300:]
            return [ev]

        def products():
            out_ = set()
            for dp, dns, fns in os.walk(p.bld):
                for f in fns:
                    if f.endswith(('.o', '.d')) or f == 'prog':
                        out_.add(os.path.relpath(os.path.join(dp, f), p.bld))
            return out_
        built = products()
        rc, out = p.tool(['clean'] if backend == 'make' else ['-t', 'clean'])
        ev['left'] = sorted(products())[:10]
        rc, out = p.tool(['-j8'])
        # (ninja keeps dependency information in its own log, not in .d files)
        now = products()
        ev['missing'] = sorted(x for x in built - now
                               if backend == 'make' or not x.endswith('.d'))[:10]
        p.tick()
        regen.write(os.path.join(p.src, 'common.h'), '#define K 2\n')
        cclog = os.path.join(p.root, 'cc.log')
        rc, out = p.tool(['-j8'], env={'VERIF_CCLOG': cclog})
        ev['exit'] = rc
        if os.path.exists(cclog):
            ev['recompiled'] = len({os.path.basename(x.strip())
                                    for x in open(cclog)
                                    if os.path.basename(x.strip())[0] == 'f'})
        prog = os.path.join(p.bld, 'prog')
        if os.path.exists(prog):
            r = subprocess.run([prog], capture_output=True, text=True)
            try:
                ev['output'] = int(r.stdout.strip())
            except ValueError:
                pass
        if rc:
            ev['note'] = out[-300:]
        return [ev]
    finally:
        p.close()


def shadow_project(backend):
    """cfg.h exists in two include directories; the first copy is renamed
    away, comes back, is deleted: each time the object must be compiled
    again against the copy that is now found"""
    files = {'inc1/cfg.h': '#define K 1\n', 'inc2/cfg.h': '#define K 20\n',
             'main.c': '#include <stdio.h>\n#include "cfg.h"\n'
             'int main(void){printf("%d\\n", K);return 0;}\n',
             'build.bfg': "project('p')\nexecutable('prog', ['main.c'], "
             "includes=['inc1', 'inc2'])\n"}
    p = regen.Proj(files, backend=backend)
    ev = {'op': 'shadow', 'f': '', 'g': '', 'steps': [], 'note': ''}
    try:
        p.env['CC'] = make_wrapper(p.root)
        for k in ('CXX', 'AR'):
            p.env.pop(k, None)
        rc, out = p.configure()
        cclog = os.path.join(p.root, 'cc.log')
        a, b = os.path.join(p.src, 'inc1', 'cfg.h'), \
            os.path.join(p.src, 'inc1', 'cfg.h.away')

        def step(want):
            if os.path.exists(cclog):
                os.remove(cclog)
            p.tick()
            rc, out = p.tool(env={'VERIF_CCLOG': cclog})
            val = -1
            prog = os.path.join(p.bld, 'prog')
            if os.path.exists(prog):
                r = subprocess.run([prog], capture_output=True, text=True)
                try:
                    val = int(r.stdout.strip())
                except ValueError:
                    pass
            ev['steps'].append({'exit': rc, 'output': val, 'want': want,
                                'recompiled': os.path.exists(cclog)})
            if rc and not ev['note']:
                ev['note'] = out[-300:]
        step(1)
        p.tick()
        os.rename(a, b)
        step(20)
        p.tick()
        # (it comes back with its old time stamp - no build tool that goes
        # by time stamps can notice that - and the source is edited)
        os.rename(b, a)
        os.utime(os.path.join(p.src, 'main.c'))
        step(1)
        p.tick()
        os.remove(a)
        step(20)
        return [ev]
    finally:
        p.close()


def main(argv):
    ck = Check('C07', argv)
    names_ok = [n for n, ok in zip(CANDIDATES, pmap(reference_ok, CANDIDATES))
                if ok]
    excluded = [n for n in CANDIDATES if n not in names_ok]
    ck.note('header_names_in_scope', names_ok)
    ck.note('header_names_excluded_by_reference_makefile', excluded)
    if 'plain.h' not in names_ok:
        raise MachineryError('reference Makefile cycle fails for plain.h')
    n, me = (60, 8) if ck.quick else (900, 10)
    g = tlc_ok('Incr_Gen', gen_cfg(n, ck.seed, me), timeout=1500)
    ck.add_model(g, 'Incr_Gen: %d histories' % n)
    hists = [p for p in g.prints if isinstance(p, list) and p and
             isinstance(p[0], dict) and 'op' in p[0]]
    if len(hists) < n // 2:
        raise MachineryError('Incr_Gen gave %d histories\n%s' % (len(hists),
                                                                 g.tail()))
    import random
    rnd = random.Random(ck.seed)
    jobs = []
    for i, h in enumerate(hists):
        pick = rnd.sample(names_ok, 3) if len(names_ok) >= 3 else \
            (names_ok * 3)[:3]
        blank = [x for x in names_ok if ' ' in x]
        if i % 2 == 0 and blank:      # blanks are what depfile escaping is about
            pick[rnd.randrange(3)] = rnd.choice(blank)
            pick = list(dict.fromkeys(pick)) + [x for x in names_ok
                                                if x not in pick]
            pick = pick[:3]
        jobs.append((h, 'make' if i % 4 else 'ninja',
                     {'h1': pick[0], 'h2': pick[1], 'h3': pick[2]}))
    # directed: every in-scope name is included, built, dropped and deleted
    # without an intervening build (the depfile still names it), then
    # re-created and included again
    B = {'op': 'build', 'f': '', 'g': ''}

    def E(op, f, g=''):
        return {'op': op, 'f': f, 'g': g}
    directed = [E('addinc', 's1', 'h1'), E('addhinc', 'h1', 'h2'), B,
                E('drophinc', 'h1', 'h2'), E('delete', 'h2'), B,
                E('dropinc', 's1', 'h1'), E('delete', 'h1'), B,
                E('recreate', 'h1'), E('addinc', 's2', 'h1'), B,
                E('modify', 'h1'), B, E('clean', ''), B]
    for i, nm in enumerate(names_ok):
        others = [x for x in names_ok if x != nm]
        nms = {'h1': nm, 'h2': others[i % len(others)],
               'h3': others[(i + 1) % len(others)]}
        for b in ('make', 'ninja'):
            jobs.append((directed, b, nms))
            jobs.append((directed, b, {'h1': nms['h2'], 'h2': nm,
                                       'h3': nms['h3']}))
    # precompiled-header mode (Incr.tla with Pch = "h0"): every source is
    # compiled against pch.h, which may include the other headers
    npch = n // 3
    gp = tlc_ok('Incr_Gen', gen_cfg(npch, ck.seed + 7, me, pch=True),
                timeout=1500)
    ck.add_model(gp, 'Incr_Gen (pch mode): %d histories' % npch)
    phists = [p for p in gp.prints if isinstance(p, list) and p and
              isinstance(p[0], dict) and 'op' in p[0]]
    if len(phists) < npch // 2:
        raise MachineryError('Incr_Gen (pch) gave %d histories\n%s' % (
            len(phists), gp.tail()))
    pdirected = [B, E('addhinc', 'h0', 'h1'), B, E('modify', 'h1'), B,
                 E('modify', 'h0'), B, E('addhinc', 'h1', 'h2'), B,
                 E('modify', 'h2'), B, E('drophinc', 'h0', 'h1'),
                 E('delete', 'h1'), B, E('clean', ''), B,
                 E('addinc', 's1', 'h2'), E('modify', 'h2'), B]
    npl = len(jobs)
    for i, h in enumerate(phists + [pdirected] * 4):
        pick = rnd.sample(names_ok, 2)
        jobs.append((h, 'make' if i % 3 else 'ninja',
                     {'h0': 'pch.h', 'h1': pick[0], 'h2': pick[1]}))
    for i, job in enumerate(jobs):
        if i % 3:
            job[2]['_s2'] = ('sub dir/s 2.c', 'o#d/s$2.c')[i % 3 - 1]
    for i, job in enumerate(jobs):
        if i % 2 == 0:
            job[2]['_gen'] = '1'
        if i % 5 == 1 or (job[0] is directed and any(
                '/' in v for k, v in job[2].items() if k in ('h1', 'h2'))):
            job[2]['_hd'] = '1'
    res = pmap(replay, jobs, jobs=12)
    traces = [{'id': i + 1, 'events': [
        {k: v for k, v in e.items() if k != 'note'} for e in ev]}
        for i, ev in enumerate(res)]
    rej, st = validate_traces('Incr_Trace', trace_cfg(False), traces[:npl],
                              chunk=60)
    rej2, st2 = validate_traces('Incr_Trace', trace_cfg(True), traces[npl:],
                                chunk=60)
    rej.update(rej2)
    # many sources (batching of the clean command, many depfiles)
    bjobs = [(b, 70 if ck.quick else 150) for b in ('make', 'ninja')]
    bres = pmap(big_project, bjobs, jobs=2)
    nb0 = len(traces)
    btr = [{'id': nb0 + i + 1, 'events': [
        {k: v for k, v in e.items() if k != 'note'} for e in ev]}
        for i, ev in enumerate(bres)]
    rej3, st3 = validate_traces('Incr_Trace', trace_cfg(False), btr, chunk=60)
    rej.update(rej3)
    for k in ('distinct', 'generated'):
        st[k] += st3[k]
    traces += btr
    res += bres
    jobs += [([], b, {'h1': 'common.h', 'big': str(n_)}) for b, n_ in bjobs]
    # one header name in two include directories
    sres = pmap(shadow_project, ['make', 'ninja'], jobs=2)
    ns0 = len(traces)
    stq = [{'id': ns0 + i + 1, 'events': [
        {k: v for k, v in e.items() if k != 'note'} for e in ev]}
        for i, ev in enumerate(sres)]
    rej4, st4 = validate_traces('Incr_Trace', trace_cfg(False), stq, chunk=60)
    rej.update(rej4)
    for k in ('distinct', 'generated'):
        st[k] += st4[k]
    traces += stq
    res += sres
    jobs += [([], b, {'h1': 'cfg.h', 'shadow': '1'}) for b in ('make',
                                                               'ninja')]
    for k in ('distinct', 'generated'):
        st[k] += st2[k]
    ck.traces = len(traces)
    ck.evaluations = sum(1 for t in traces for e in t['events']
                         if e['op'] == 'build')
    ck.states += st['distinct']
    ck.transitions += st['generated']
    for tid, info in sorted(rej.items()):
        h, backend, names = jobs[tid - 1]
        ev = res[tid - 1][info[1] - 1]
        prev = [e['op'] for e in res[tid - 1][:info[1] - 1]][-3:]
        special = ''.join(sorted({c for nm in names.values() for c in nm
                                  if not c.isalnum() and c not in './'}))
        # the file the build tool says it cannot make, if it names one of
        # the headers: the finding is identified by that header's characters
        m = re.search(r"No rule to make target '[^']*/src/([^']*)'|"
                      r"'[^']*/src/([^']*)', needed by",
                      ev.get('note', ''))
        missing = (m.group(1) or m.group(2)) if m else None
        if missing in names.values():
            # a header the build tool cannot make: identified by its
            # characters alone (whatever edits came before)
            key = 'C07:%s:%s:missing-header:%s' % (info[0], backend, ''.join(
                sorted({c for c in missing if not c.isalnum() and
                        c not in './'})))
        else:
            key = 'C07:%s:%s:after=%s:names=%s' % (
                info[0], backend, '+'.join(prev), special)
        ck.report(key + (':pch' if 'h0' in names else ''),
            '%s (%s): %s expected/observed %s; header names %s; %s' % (
                info[0], backend, json.dumps(ev)[:300], json.dumps(info[2]),
                names, ev.get('note', '')),
            {'history': h, 'names': names, 'backend': backend,
             'events': res[tid - 1][:info[1]]})
    ck.sample({'names': jobs[0][2], 'events': res[0][:8]})
    ck.assumptions += [
        'header names are drawn from the candidates whose own gcc depfile a '
        'hand-written Makefile consumes (create / quiet / notice a touch); '
        'excluded names are listed in the evidence',
        'two sources, three headers; headers include only later headers',
        'tick barrier between steps; gcc 12, GNU Make 4.3, reference ninja']
    ck.finish(rule='histories from Incr_Gen.tla (modify, add/drop include in '
              'sources and headers, delete / re-create an unused header, '
              'clean, build) x header-name triples x {make, ninja}; every '
              'build is compared with the model; non-trivial = history with '
              'a header edit', distinct_nontrivial=sum(
                  1 for h in hists if any(e['op'] != 'build' and
                                          e['f'].startswith('h') or
                                          e['g'].startswith('h')
                                          for e in h)))
