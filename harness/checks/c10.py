"""C10 - interrupted or failed regeneration never leaves silently stale build
files.  Specs: Regen.tla (design model with crash windows, model-checked),
Regen_Trace.tla (contract on recorded histories).  Binding: fault enumeration
over the real mutation points of `bfg9000 regenerate --lazy` started by the
backend's own regeneration rule (shim: kill / ENOSPC at point k), followed by
two further attempts, each compared with a fresh configure."""
import json
import os
import shutil

from engine import TreeBroken, run
from engine import (Check, tlc, tlc_ok, validate, validate_traces, pmap, BIN,
                    MachineryError)
import regen

TRACE = 'SPECIFICATION TraceSpec\nCHECK_DEADLOCK FALSE\n'

BASE = {
    'build.bfg': "project('p', version='1.0')\n"
                 "srcs = find_files('lib/*.c')\n"
                 "prog = executable('prog', ['main.c'] + srcs)\n",
    'main.c': 'int main(void){return 0;}\n',
    'lib/a.c': 'int a(void){return 1;}\n',
}
PKG = dict(BASE)
PKG['build.bfg'] = ("project('p', version='1.0')\n"
                    "srcs = find_files('lib/*.c')\n"
                    "lib = static_library('foo', srcs)\n"
                    "hdr = header_file('foo.h')\n"
                    "pkg_config('foo', version='1.0', includes=[hdr], "
                    "libs=[lib])\n")
PKG['foo.h'] = 'int a(void);\n'
RULES = dict(BASE)
RULES['build.bfg'] = BASE['build.bfg'] + ("install(prog)\n"
                                          "test(prog)\n")


def edit_add(p):
    regen.write(os.path.join(p.src, 'lib', 'b.c'), 'int b(void){return 2;}\n')
    return {'ev': 'Edit', 'op': 'add', 'path': 'lib/b.c'}


def edit_remove(p):
    os.remove(os.path.join(p.src, 'lib', 'a.c'))
    return {'ev': 'Edit', 'op': 'remove', 'path': 'lib/a.c'}


def edit_script(p):
    with open(os.path.join(p.src, 'build.bfg'), 'a') as f:
        f.write("command('hello', cmd=['echo', 'hi'])\n")
    return {'ev': 'Edit', 'op': 'script', 'path': 'build.bfg'}


# ways in which a script gives up (exit() / exit(0) is the documented early,
# successful exit and is not one of them)
HOWS = ["raise RuntimeError('boom')", "exit('fatal: cannot go on')",
        "import sys; sys.exit(3)", "raise SystemExit('stop')", "1 / 0",
        "exit(2)", "submodule('no-such-directory')"]


def edit_raise(p, how=HOWS[0]):
    # right after the project() line: a script run only half-way would
    # describe a different build
    path = os.path.join(p.src, 'build.bfg')
    lines = open(path).read().splitlines(True)
    with open(path, 'w') as f:
        f.write(''.join(lines[:1]) + how + '\n' + ''.join(lines[1:]))
    return {'ev': 'Edit', 'op': 'raise', 'path': 'build.bfg'}


SCENARIOS = [
    ('find+add', BASE, edit_add, 'make'),
    ('find+script', BASE, edit_script, 'make'),
    ('pkg+script', PKG, edit_script, 'make'),
    ('find+add/ninja', BASE, edit_add, 'ninja'),
    ('rules+remove', RULES, edit_remove, 'make'),
    ('pkg+remove', PKG, edit_remove, 'make'),
    ('rules+script/ninja', RULES, edit_script, 'ninja'),
    ('pkg+script/ninja', PKG, edit_script, 'ninja'),
]


ACTION = {('open', '.bfg_environ'): 'EnvOpen',
          ('close', '.bfg_environ'): 'EnvClose',
          ('replace', '.bfg_find_deps'): 'DepsRename',
          ('open', '.bfg_find_cache'): 'CacheOpen',
          ('close', '.bfg_find_cache'): 'CacheClose',
          ('open', 'Makefile'): 'MkOpen', ('close', 'Makefile'): 'MkClose',
          ('open', 'build.ninja'): 'MkOpen',
          ('close', 'build.ninja'): 'MkClose',
          ('open', 'build.ninja.tmp'): 'MkOpen',
          ('close', 'build.ninja.tmp'): 'MkClose',
          ('replace', 'build.ninja'): 'MkRename',
          ('utime', 'Makefile'): 'Touch', ('utime', 'build.ninja'): 'Touch'}


def conformance_traces(name, order):
    """the recorded mutation order of one regeneration, and each of its
    crash prefixes, as sequences of Regen.tla action names"""
    acts = [(i + 1, ACTION[(op, f)]) for i, (op, f, side) in enumerate(order)
            if side == 'post' and (op, f) in ACTION]
    out = [{'what': '%s:full' % name, 'acts': [a for _, a in acts]}]
    fin = ('MkRename', 'Touch') if any(a == 'MkRename' for _, a in acts) \
        else ('MkClose', 'Touch')
    last = max([k for k, a in acts if a in fin] or [0])
    for k in range(1, len(order) + 1):
        if last and k >= last:
            break                      # the modelled part of the run is over
        out.append({'what': '%s:crash@%d' % (name, k),
                    'acts': [a for j, a in acts if j <= k] + ['Crash']})
    return out


def attempt(p, fresh, before):
    rc, out = p.tool()
    now = p.outputs()
    bf = os.path.basename(p.buildfile)
    return {'ev': 'Attempt', 'exit': rc,
            'fresh': fresh is not None and now == fresh,
            'diff': 'other' if fresh is None else regen.diff_class(now, fresh),
            'unchanged': now.get(bf) == before.get(bf),
            'rewrote': now.get(bf) != before.get(bf),
            'must_succeed': False,
            'state': regen.file_state(p.buildfile),
            'tail': out[-200:] if rc else ''}


def prepare(name, files, edit, backend):
    """-> (project with saved states, edit event, mutation log, fresh)"""
    p = regen.Proj(files, backend=backend)
    rc, out = p.configure()
    if rc != 0:
        raise TreeBroken('configure failed in scenario %s: %s' %
                             (name, out[-300:]))
    rc, out = p.tool()
    if rc != 0:
        raise TreeBroken('first build failed in %s: %s' % (name,
                                                               out[-300:]))
    p.tick()
    ev = edit(p)
    p.save('edited')
    frc, fresh, aux, fout = p.fresh()
    log = os.path.join(p.root, 'mut.log')
    rc, out = p.tool(shim={'BFG9000_VERIF_LOG': log})
    muts = regen.read_mutlog(log)
    if not muts:
        raise TreeBroken('no mutation points recorded in %s: %s' %
                             (name, out[-300:]))
    return p, ev, muts, fresh


def fault_run(arg):
    name, files, edit, backend, k, mode = arg
    p, ev, muts, fresh = arg[6]
    # every run works on its own copy of the saved state
    q = regen.Proj({}, backend=backend)
    try:
        os.rmdir(q.src)
        regen.copytree(os.path.join(p.root, 'saved-edited', 'src'), q.src)
        regen.copytree(os.path.join(p.root, 'saved-edited', 'build'), q.bld)
        # absolute paths are baked into the build files: run in place of p
        return None
    finally:
        q.close()


def run_scenario(sc, modes, ck_quick):
    name, files, edit, backend = sc
    p, ev, muts, fresh = prepare(name, files, edit, backend)
    traces = []
    try:
        npoints = len(muts)
        before = None
        for k in range(1, npoints + 1):
            for mode in modes:
                if mode == 'enospc' and muts[k - 1]['side'] != 'pre':
                    continue
                p.restore('edited')
                before = p.outputs()
                log = os.path.join(p.root, 'mut.log')
                if os.path.exists(log):
                    os.remove(log)
                rc, out = p.tool(shim={'BFG9000_VERIF_LOG': log,
                                       'BFG9000_VERIF_FAULT': '%d:%s' %
                                       (k, mode)})
                seen = regen.read_mutlog(log)
                events = [ev]
                events += [{'ev': 'Mut', 'k': m['k'], 'op': m['op'],
                            'file': m['file'], 'side': m['side']}
                           for m in seen if m['k'] <= k]
                events.append({'ev': 'Fault', 'k': k, 'mode': mode})
                now = p.outputs()
                bf = os.path.basename(p.buildfile)
                events.append({'ev': 'Attempt', 'exit': rc,
                               'fresh': now == fresh,
                               'diff': regen.diff_class(now, fresh),
                               'unchanged': now.get(bf) == before.get(bf),
                               'rewrote': now.get(bf) != before.get(bf),
                               'must_succeed': False,
                               'state': regen.file_state(p.buildfile),
                               'tail': out[-200:] if rc else ''})
                b2 = p.outputs()
                events.append(attempt(p, fresh, b2))
                b3 = p.outputs()
                events.append(attempt(p, fresh, b3))
                m = muts[k - 1]
                traces.append({'scenario': name, 'k': k, 'mode': mode,
                               'point': '%s(%s):%s' % (m['op'], m['file'],
                                                       m['side']),
                               'events': events})
        return traces, [(m['op'], m['file'], m['side']) for m in muts]
    finally:
        p.close()


def reconfigure_scenario(arg):
    """an existing build directory is configured AGAIN with different settings
    (another prefix) and that run is killed / fails at every mutation point.
    Afterwards `make` and an explicit `bfg9000 regenerate` run.  A successful
    attempt must leave the files of the NEW configuration - or, as long as
    the saved configuration still is the old one byte for byte, those of the
    old configuration (the interrupted run then never took effect)."""
    backend, modes = arg
    name = 'reconfigure' + ('/ninja' if backend == 'ninja' else '')
    p = regen.Proj(PKG, backend=backend, args=['--prefix', '/opt/old one'])
    traces = []
    try:
        rc, out = p.configure()
        if rc == 0:
            rc, out = p.tool()
        if rc != 0:
            raise TreeBroken('configure/build failed in %s: %s' % (
                name, out[-300:]))
        p.tick()
        p.save('base')
        envfile = os.path.join(p.bld, '.bfg_environ')
        base_env = open(envfile, 'rb').read()
        frc, fresh_old, _, _ = p.fresh()
        p.args = ['--prefix', '/opt/new']
        frc2, fresh_new, _, _ = p.fresh()
        if frc or frc2 or fresh_old == fresh_new:
            raise TreeBroken('fresh configures of %s unusable' % name)
        shim = {'BFG9000_VERIF': '1', 'PYTHONPATH': regen.SHIM + (
            ':' + regen.REPO if regen.REPO != '/repo' else ''),
            'BFG9000_VERIF_ROOT': p.bld}
        log = os.path.join(p.root, 'mut.log')
        rc, out = p.configure(env=dict(shim, BFG9000_VERIF_LOG=log))
        muts = regen.read_mutlog(log)
        if rc != 0 or not muts:
            raise TreeBroken('re-configure of %s: %s' % (name, out[-300:]))

        def verdict(rc_, before):
            now = p.outputs()
            bf = os.path.basename(p.buildfile)
            try:
                env_now = open(envfile, 'rb').read()
            except OSError:
                env_now = None
            ok = now == fresh_new or (now == fresh_old and
                                      env_now == base_env)
            return {'ev': 'Attempt', 'exit': rc_, 'fresh': ok,
                    'diff': 'other',
                    'envstate': 'old' if env_now == base_env else
                    'absent' if env_now is None else 'new-or-partial',
                    'mkstate': 'new' if now == fresh_new else
                    'old' if now == fresh_old else 'other',
                    'unchanged': now.get(bf) == before.get(bf),
                    'rewrote': now.get(bf) != before.get(bf),
                    'must_succeed': False,
                    'state': regen.file_state(p.buildfile)}
        for k in range(1, len(muts) + 1):
            for mode in modes:
                if mode == 'enospc' and muts[k - 1]['side'] != 'pre':
                    continue
                p.restore('base')
                if os.path.exists(log):
                    os.remove(log)
                rc, out = p.configure(env=dict(
                    shim, BFG9000_VERIF_LOG=log,
                    BFG9000_VERIF_FAULT='%d:%s' % (k, mode)))
                seen = regen.read_mutlog(log)
                events = [{'ev': 'Edit', 'op': 'reconfigure', 'path': ''}]
                events += [{'ev': 'Mut', 'k': m['k'], 'op': m['op'],
                            'file': m['file'], 'side': m['side']}
                           for m in seen if m['k'] <= k]
                events.append({'ev': 'Fault', 'k': k, 'mode': mode})
                b = p.outputs()
                p.tick()
                rc1, o1 = p.tool()
                e1 = verdict(rc1, b)
                e1['tail'] = o1[-200:] if rc1 else ''
                events.append(e1)
                b = p.outputs()
                rc2, o2 = run(['/venv/bin/bfg9000', 'regenerate', p.bld],
                              cwd=p.root, env=p.env)
                e2 = verdict(rc2, b)
                e2['tail'] = o2[-200:] if rc2 else ''
                events.append(e2)
                m = muts[k - 1]
                traces.append({'scenario': name, 'k': k, 'mode': mode,
                               'point': '%s(%s):%s' % (m['op'], m['file'],
                                                       m['side']),
                               'events': events})
        return traces
    finally:
        p.close()


def firstconf_scenario(arg):
    """the FIRST configure into a build directory that does not exist yet is
    killed / fails at every mutation point.  Afterwards the backend runs in
    whatever was left (if a build file exists, its regeneration rule is the
    next attempt), then an explicit `bfg9000 regenerate`: a success must leave
    the files of an uninterrupted configure."""
    backend, modes = arg
    name = 'firstconf' + ('/ninja' if backend == 'ninja' else '')
    p = regen.Proj(PKG, backend=backend)
    traces = []
    try:
        shim = {'BFG9000_VERIF': '1', 'PYTHONPATH': regen.SHIM + (
            ':' + regen.REPO if regen.REPO != '/repo' else ''),
            'BFG9000_VERIF_ROOT': p.bld}
        log = os.path.join(p.root, 'mut.log')
        rc, out = p.configure(env=dict(shim, BFG9000_VERIF_LOG=log))
        muts = regen.read_mutlog(log)
        if rc != 0 or not muts:
            raise TreeBroken('configure of %s: %s' % (name, out[-300:]))
        fresh = p.outputs()
        for k in range(1, len(muts) + 1):
            for mode in modes:
                if mode == 'enospc' and muts[k - 1]['side'] != 'pre':
                    continue
                shutil.rmtree(p.bld, ignore_errors=True)
                if os.path.exists(log):
                    os.remove(log)
                rc, out = p.configure(env=dict(
                    shim, BFG9000_VERIF_LOG=log,
                    BFG9000_VERIF_FAULT='%d:%s' % (k, mode)))
                seen = regen.read_mutlog(log)
                events = [{'ev': 'Edit', 'op': 'first-configure', 'path': ''}]
                events += [{'ev': 'Mut', 'k': m['k'], 'op': m['op'],
                            'file': m['file'], 'side': m['side']}
                           for m in seen if m['k'] <= k]
                events.append({'ev': 'Fault', 'k': k, 'mode': mode})
                if not os.path.isdir(p.bld):
                    os.makedirs(p.bld)
                p.tick()
                events.append(attempt(p, fresh, p.outputs()))
                b = p.outputs()
                rc2, o2 = run(['/venv/bin/bfg9000', 'regenerate', p.bld],
                              cwd=p.root, env=p.env)
                now = p.outputs()
                bf = os.path.basename(p.buildfile)
                events.append({'ev': 'Attempt', 'exit': rc2,
                               'fresh': now == fresh,
                               'diff': regen.diff_class(now, fresh),
                               'unchanged': now.get(bf) == b.get(bf),
                               'rewrote': now.get(bf) != b.get(bf),
                               'must_succeed': False,
                               'state': regen.file_state(p.buildfile),
                               'tail': o2[-200:] if rc2 else ''})
                m = muts[k - 1]
                traces.append({'scenario': name, 'k': k, 'mode': mode,
                               'point': '%s(%s):%s' % (m['op'], m['file'],
                                                       m['side']),
                               'events': events})
        return traces
    finally:
        p.close()


def raise_scenario(arg):
    """the edited script raises: previous build file untouched, visible
    failure; after repairing the script the next attempt is fresh"""
    sc, how = arg
    name, files, edit, backend = sc
    p = regen.Proj(files, backend=backend)
    try:
        rc, out = p.configure()
        p.tool()
        p.tick()
        ev = edit_raise(p, how)
        before = p.outputs()
        events = [ev, attempt(p, None, before), attempt(p, None, before)]
        p.tick()
        with open(os.path.join(p.src, 'build.bfg'), 'w') as f:
            f.write(files['build.bfg'] + "command('x', cmd=['true'])\n")
        events.append({'ev': 'Edit', 'op': 'unraise', 'path': 'build.bfg'})
        frc, fresh, aux, fout = p.fresh()
        events.append(attempt(p, fresh, p.outputs()))
        return {'scenario': name + '+raise', 'k': 0, 'mode': 'raise',
                'point': 'script:' + how.split('(')[0].strip(),
                'events': events}
    finally:
        p.close()


def main(argv):
    ck = Check('C10', argv)
    # 1. design model: which crash windows end in a silent stale success?
    cfg = ('CONSTANTS Names = {%s} MaxClock = %d AllowCrash = TRUE '
           'MaxEdits = %d Fixed = %s Backend = "%s" AtomicMk = %s\n'
           'SPECIFICATION Spec\nCONSTRAINT Bound\n'
           'CONSTRAINT BaseExists\nINVARIANT Report\nINVARIANT Converges\n'
           'CHECK_DEADLOCK FALSE\n')
    big = ('"a"', 20, 1) if ck.quick else ('"a", "b"', 36, 2)

    def windows_of(args):
        r = tlc_ok('Regen', cfg % args)
        return r, sorted({p[1] for p in r.prints if isinstance(p, list) and
                          p and p[0] == 'VIOL'})
    # the current algorithm under both backends: Make (build file truncated
    # in place, a truncated Makefile fails visibly) and Ninja (build file
    # renamed into place; an empty manifest would be "nothing to do")
    for backend, atomic in (('make', 'FALSE'), ('ninja', 'TRUE')):
        r, windows = windows_of(big + ('TRUE', backend, atomic))
        ck.add_model(r, 'Regen design model of the repaired algorithm (%s), '
                     '%d edit(s), one crash at any point' % (backend, big[2]))
        ck.note('design_model_stale_windows_' + backend, windows)
        if windows or r.invariant_violated:
            ck.report('C10:design:stale-window:%s:%s' % (
                backend, '+'.join(windows)),
                'the design model of the current algorithm has a crash '
                'window that ends in a silent stale success: %s\n%s' %
                (windows, r.tail(30)))
    # vacuity guards: the pinned tree's algorithm must show its two windows,
    # and the pinned Ninja writer (truncating in place) its own
    r0, w0 = windows_of(('"a"', 18, 1, 'FALSE', 'make', 'FALSE'))
    ck.note('design_model_stale_windows_of_pinned_algorithm', w0)
    if w0 != ['deps_close', 'mk_open']:
        ck.machinery('vacuity guard: the model of the pinned algorithm '
                     'shows windows %r' % w0)
    r1, w1 = windows_of(('"a"', 18, 1, 'TRUE', 'ninja', 'FALSE'))
    ck.note('design_model_stale_windows_of_pinned_ninja_writer', w1)
    if w1 != ['mk_close']:
        ck.machinery('vacuity guard: the model of the truncating Ninja '
                     'writer shows windows %r' % w1)

    # 2. fault enumeration on the real code
    scs = SCENARIOS[:5] if ck.quick else SCENARIOS
    modes = ['kill', 'enospc']
    results = pmap(lambda sc: run_scenario(sc, modes, ck.quick), scs, jobs=8)
    raises = pmap(raise_scenario, [(sc, how) for sc in (
        scs[:1] + scs[3:4] if ck.quick else scs) for how in HOWS], jobs=8)
    reconf = pmap(reconfigure_scenario, [('make', modes)] + (
        [] if ck.quick else [('ninja', modes)]), jobs=2)
    first = pmap(firstconf_scenario, [('make', modes), ('ninja', modes)],
                 jobs=2)
    runs = [t for tr, _ in results for t in tr] + raises + \
        [t for tr in reconf for t in tr] + [t for tr in first for t in tr]
    ck.note('mutation_sequences', {sc[0]: ['%s(%s):%s' % m for m in order]
                                   for sc, (_, order) in zip(scs, results)})
    # design-level conformance of the recorded mutation orders
    conf = []
    for sc, (_, order) in zip(scs, results):
        conf += conformance_traces(sc[0], order)
    for i, c in enumerate(conf):
        c['id'] = i + 1
    ccfg = ('CONSTANTS Names = {"a"} MaxClock = 40 AllowCrash = TRUE '
            'MaxEdits = 2 Fixed = TRUE Backend = "%s" AtomicMk = %s\n'
            'SPECIFICATION ConfSpec\n'
            'CONSTRAINT Bound\nINVARIANT Explained\nCHECK_DEADLOCK FALSE\n')
    acc = set()
    rc = None
    for backend, atomic in (('make', 'FALSE'), ('ninja', 'TRUE')):
        part = [c for c in conf if ('/ninja' in c['what']) ==
                (backend == 'ninja')]
        if not part:
            continue
        a, _, r_ = validate('Regen_Conf', ccfg % (backend, atomic), [
            {'id': c['id'], 'acts': c['acts']} for c in part], workers=8)
        acc |= set(a)
        if rc is None:
            rc = r_
        else:
            rc.distinct += r_.distinct
            rc.generated += r_.generated
    unexplained = [c['what'] for c in conf if c['id'] not in acc]
    ck.drift = len(unexplained)
    ck.states += rc.distinct
    ck.transitions += rc.generated
    ck.note('conformance', {'mutation_sequences_checked': len(conf),
                            'explained_by_Regen.tla': len(conf) -
                            len(unexplained),
                            'unexplained (SPEC-DRIFT)': unexplained[:20]})
    if unexplained:
        print('SPEC-DRIFT property=C10 %d recorded mutation sequences are '
              'not behaviours of Regen.tla (first: %s)' % (
                  len(unexplained), unexplained[0]))
    traces = [{'id': i + 1, 'events': [
        {k: v for k, v in e.items() if k not in ('tail', 'state', 'envstate',
                                                  'mkstate')}
        for e in tr['events']]} for i, tr in enumerate(runs)]
    rej, st = validate_traces('Regen_Trace', TRACE, traces, chunk=200)
    ck.traces = len(traces)
    ck.evaluations = sum(len(t['events']) for t in traces)
    ck.states += st['distinct']
    ck.transitions += st['generated']
    for tid, info in sorted(rej.items()):
        tr = runs[tid - 1]
        backend = 'ninja' if tr['scenario'].endswith('/ninja') else 'make'
        key = 'C10:%s:%s:%s:after=%s' % (info[0], backend, tr['mode'],
                                        tr['point'])
        if tr['scenario'].startswith('reconfigure'):
            e_ = tr['events'][info[1] - 1]
            nth = len([x for x in tr['events'][:info[1]]
                       if x['ev'] == 'Attempt'])
            # (the crash point is part of the identity of the finding: a
            # stale success after another point is another violation)
            pt = tr['point'].replace(os.path.basename(
                'Makefile' if backend == 'make' else 'build.ninja'),
                '<buildfile>')
            key = 'C10:%s:%s:%s:attempt%d:env=%s:files=%s:at=%s' % (
                info[0], tr['scenario'].split('/')[0], backend, nth,
                e_.get('envstate'), e_.get('mkstate'), pt)
        ck.report(key, '%s in scenario %s: fault %s at point %d %s; event '
                  '%d: %s' % (info[0], tr['scenario'], tr['mode'], tr['k'],
                              tr['point'], info[1],
                              json.dumps(tr['events'][info[1] - 1])), tr)
    for tr in runs[:2] + runs[-1:]:
        ck.sample({k: v for k, v in tr.items()})
    ck.assumptions += [
        'crash = os._exit(137) inside the bfg9000 process at a numbered '
        'mutation point (both sides of open/close/remove/utime/makedirs); '
        'ENOSPC = OSError raised before the call',
        'stub compilers; timestamps are never equal (tick barrier)',
        'fresh = a fresh configure of the edited tree into the same build '
        'directory path with the same environment']
    ck.finish(exhaustive=True, rule='runs = scenario x mutation point x '
              'fault mode, each followed by two further attempts; every '
              'mutation point of the logged regeneration is used; '
              'non-trivial = the fault hits between two mutations of '
              'different files', distinct_nontrivial=len(runs))
