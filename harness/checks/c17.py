"""C17 - generated pkg-config files give consumers the declared flags and
requirements.  Specs: Specs.tla (specifier sets: reference acceptance + design
model of simplify_specifiers, model-checked), PkgConfLang.tla (how pkg-config
output is split), PkgConfig_Trace.tla (contract).  Binding: the real
simplify_specifiers on every specifier set of the bound; real pkg_config() in
generated scripts, the real pkg-config tool on both .pc files, fake dependency
packages at every test version."""
import itertools
import json
import os
import random
import shutil
import subprocess
import sys

from engine import (Check, tlc_ok, validate_traces, pmap, run, tool_env, BIN,
                    scratch, syms, MachineryError)
import argpipe as ap

OPS = ['==', '!=', '<', '<=', '>', '>=']
SPECV = [2, 4, 6]
POINTS = [1, 2, 3, 4, 5, 6, 7]
TRACE = ('CONSTANTS SpecVers = {2, 4, 6} Points = {1,2,3,4,5,6,7} '
         'MaxSpecs = 3\nSPECIFICATION TraceSpec\nCHECK_DEADLOCK FALSE\n')


def vstr(n):
    return str(n // 2) if n % 2 == 0 else '%d.5' % (n // 2)


def spec_str(s):
    return ','.join(x['op'] + vstr(x['v']) for x in s)


def all_sets(maxn):
    specs = [{'op': o, 'v': v} for o in OPS for v in SPECV]
    for n in range(maxn + 1):
        for c in itertools.combinations(specs, n):
            yield list(c)


# ---------------------------------------------------------------- simplify
def simplify_events(maxn):
    sys.path.insert(0, os.environ.get('VERIF_REPO', '/repo'))
    from bfg9000.versioning import simplify_specifiers, SpecifierSet, Version
    evs = []
    for s in all_sets(maxn):
        ev = {'ev': 'Simplify', 'set': s, 'raised': False,
              'accepts': [False] * len(POINTS)}
        try:
            r = simplify_specifiers(SpecifierSet(spec_str(s)))
            ev['accepts'] = [Version(vstr(p)) in r for p in POINTS]
            ev['result'] = str(r)
        except ValueError:
            ev['raised'] = True
        evs.append(ev)
    return evs


# ---------------------------------------------------------------- requires
def requires_case(arg):
    """pkg_config(<field>=[('dep', S)]) + fake dep at every test version.
    field: requires | requires_private | both (first specifier public, the
    rest private: the two lists are combined) | conflicts (next to a plain
    requires=['dep'], so that pkg-config evaluates the rule)"""
    s, field = arg
    root = scratch('verif-c17r-')
    try:
        src = os.path.join(root, 'src')
        pc = os.path.join(root, 'pc')
        os.makedirs(src)
        os.makedirs(pc)
        open(os.path.join(src, 'f.c'), 'w').write('int f;\n')
        open(os.path.join(src, 'build.bfg'), 'w').write(
            "project('p', version='1.0')\n"
            "lib = static_library('foo', ['f.c']%s)\n"
            "pkg_config('mypkg', version='1.0', libs=[lib], %s)\n" % (
                # 'auto': the first specifier comes with a package the
                # library itself uses, the rest is an explicit requirement
                ", packages=[package('dep', %r)]" % spec_str(s[:1])
                if field == 'auto' else '',
                "requires=[('dep', %r)]" % spec_str(s)
                if field == 'requires' else
                "requires_private=[('dep', %r)]" % spec_str(s)
                if field == 'requires_private' else
                "requires=[('dep', %r)], requires_private=[('dep', %r)]" % (
                    spec_str(s[:1]), spec_str(s[1:])) if field == 'both' else
                # (auto_fill=True: bfg9000 does not look its own package up
                # afterwards, so only the combined specifiers can object)
                "auto_fill=True, requires=[('dep', %r)]" % spec_str(s[1:])
                if field == 'auto' else
                "requires=['dep'], conflicts=[('dep', %r)]" % spec_str(s)))

        def dep(v):
            open(os.path.join(pc, 'dep.pc'), 'w').write(
                'Name: dep\nDescription: d\nVersion: %s\n' % v)
        ok = [p for p in POINTS if all(sat(x, p) for x in s)]
        if field == 'conflicts':     # configure with a non-conflicting dep
            ok = [p for p in POINTS if p not in ok]
        dep(vstr(ok[0]) if ok else '1')
        env = tool_env({'CC': os.path.join(BIN, 'stubcc'),
                        'AR': os.path.join(BIN, 'stubar'),
                        'MOPACK': os.path.join(BIN, 'mopack-stub'),
                        'PKG_CONFIG_PATH': pc})
        bld = os.path.join(root, 'build')
        rc, out = run(['/venv/bin/bfg9000', 'configure', bld,
                       '--no-resolve-packages', '--backend=make'], cwd=src,
                      env=env)
        ev = {'ev': 'Requires', 'set': s, 'field': field,
              'configure_exit': rc,
              'exists': [False] * len(POINTS),
              'multi': 'multiple specifiers' in out,
              'note': out[-200:] if rc else ''}
        if rc == 0:
            e2 = dict(env)
            e2['PKG_CONFIG_PATH'] = pc + ':' + os.path.join(bld, 'pkgconfig')
            ex = []
            for p in POINTS:
                dep(vstr(p))
                e2['PKG_CONFIG_DISABLE_UNINSTALLED'] = '1'
                q = '--libs' if field == 'conflicts' else '--exists'
                r1, _ = run(['pkg-config', q, 'mypkg'], env=e2)
                r2, _ = run(['pkg-config', q, 'mypkg-uninstalled'], env=e2)
                ex.append(r1 == 0 and r2 == 0 if r1 == r2 else None)
            ev['exists'] = [bool(x) for x in ex]
            ev['forms_agree'] = all(x is not None for x in ex)
        return ev
    finally:
        shutil.rmtree(root, ignore_errors=True)


def sat(x, p):
    return {'==': p == x['v'], '!=': p != x['v'], '<': p < x['v'],
            '<=': p <= x['v'], '>': p > x['v'], '>=': p >= x['v']}[x['op']]


# ------------------------------------------------------------------- flags
def flags_case(case):
    opts, lopts, incs, prefix = case
    root = scratch('verif-c17f-')
    try:
        # (a '#' in the source directory's own name whenever the prefix has
        # one: both reach the .pc files as variable values)
        src = os.path.join(root, 's#rc' if '#' in prefix else 'src')
        os.makedirs(src)
        open(os.path.join(src, 'f.c'), 'w').write('int f;\n')
        for d in incs:
            os.makedirs(os.path.join(src, d), exist_ok=True)
        open(os.path.join(src, 'build.bfg'), 'w').write(
            "project('p', version='1.0')\n"
            "lib = static_library('foo', ['f.c'])\n"
            "pkg_config('mypkg', version='1.0', libs=[lib], includes=[%s], "
            "options=%r, link_options=%r)\n" % (
                ', '.join('header_directory(%r)' % d for d in incs), opts,
                lopts))
        env = tool_env({'CC': os.path.join(BIN, 'stubcc'),
                        'AR': os.path.join(BIN, 'stubar')})
        bld = os.path.join(root, 'build')
        rc, out = run(['/venv/bin/bfg9000', 'configure', bld,
                       '--no-resolve-packages', '--backend=make', '--prefix',
                       prefix], cwd=src, env=env)
        evs = []
        if rc != 0:
            return [{'ev': 'Flags', 'form': 'configure', 'which': 'cflags',
                     'exit': rc, 'out': [], 'expected': [], 'exact': True, 'absent': [],
                     'note': out[-300:]}]
        e2 = dict(env)
        e2['PKG_CONFIG_PATH'] = os.path.join(bld, 'pkgconfig')
        for form, name in (('installed', 'mypkg'),
                           ('uninstalled', 'mypkg-uninstalled')):
            e2['PKG_CONFIG_DISABLE_UNINSTALLED'] = '1'
            r1, o1 = run(['pkg-config', '--cflags', name], env=e2, cwd=bld)
            if form == 'installed':
                exp = (['-I' + os.path.join(prefix, 'include')]
                       if incs else []) + opts
            else:
                exp = ['-I' + os.path.join(os.path.realpath(src), d)
                       for d in incs] + opts
            evs.append({'ev': 'Flags', 'form': form, 'which': 'cflags',
                        'exit': r1, 'out': syms(o1.replace('\n', ' ')),
                        'expected': [syms(x) for x in exp], 'exact': True,
                        'absent': []})
            r2, o2 = run(['pkg-config', '--libs', name], env=e2, cwd=bld)
            evs.append({'ev': 'Flags', 'form': form, 'which': 'libs',
                        'exit': r2, 'out': syms(o2.replace('\n', ' ')),
                        'expected': [syms(x) for x in lopts + ['-lfoo']],
                        'exact': False, 'absent': []})
        return evs
    finally:
        shutil.rmtree(root, ignore_errors=True)


def shape_case(case):
    """auto_fill on/off x includes unset / explicitly empty / given x libs
    unset / explicitly empty / given, in a project that installs a library
    and a header directory"""
    auto, imode, lmode, prefix = case[:4]
    # order 'dep-first': the library is first pulled in as the install
    # dependency of another (shared) library and then installed explicitly
    order = case[4] if len(case) > 4 else 'plain'
    shape = list(case[:3]) + ([order] if order != 'plain' else [])
    root = scratch('verif-c17s-')
    try:
        src = os.path.join(root, 'src')
        os.makedirs(os.path.join(src, 'hdir'))
        os.makedirs(os.path.join(src, 'other'))
        open(os.path.join(src, 'f.c'), 'w').write('int f;\n')
        open(os.path.join(src, 'hdir', 'h.h'), 'w').write('#define H 1\n')
        args = ["'mypkg'", "version='1.0'"]
        if auto is not None:
            args.append('auto_fill=%r' % auto)
        if imode != 'unset':
            args.append('includes=[%s]' % (
                "header_directory('other')" if imode == 'given' else ''))
        if lmode != 'unset':
            args.append('libs=[%s]' % ('lib2' if lmode == 'given' else ''))
        open(os.path.join(src, 'build.bfg'), 'w').write(
            "project('p', version='1.0')\n"
            "lib = %s('foo', ['f.c'])\n"
            "lib2 = static_library('bar', ['f.c'])\n"
            "%s"
            "install(%slib, header_directory('hdir', include='*.h'))\n"
            "pkg_config(%s)\n" % ((
                ('static_library', '', '') if order == 'plain' else
                ('shared_library', "outer = shared_library('outer', ['f.c'], "
                 "libs=[lib])\n", 'outer, ')) + (', '.join(args),)))
        env = tool_env({'CC': os.path.join(BIN, 'stubcc'),
                        'AR': os.path.join(BIN, 'stubar')})
        bld = os.path.join(root, 'build')
        # the build directory was configured before with a LONGER description
        # of the same package (what is read back is the current one)
        final = open(os.path.join(src, 'build.bfg')).read()
        open(os.path.join(src, 'build.bfg'), 'w').write(final.replace(
            "pkg_config('mypkg'", "pkg_config('mypkg', options=["
            "'-DGOES_AWAY=%s'], link_options=['-Lgoes/away/%s']" % (
                'y' * 300, 'z' * 300), 1))
        run(['/venv/bin/bfg9000', 'configure', bld, '--no-resolve-packages',
             '--backend=make', '--prefix', prefix], cwd=src, env=env)
        open(os.path.join(src, 'build.bfg'), 'w').write(final)
        rc, out = run(['/venv/bin/bfg9000', 'configure', bld,
                       '--no-resolve-packages', '--backend=make', '--prefix',
                       prefix], cwd=src, env=env)
        if rc != 0:
            return [{'ev': 'Flags', 'form': 'configure', 'which': 'cflags',
                     'exit': rc, 'out': [], 'expected': [], 'exact': True,
                     'absent': [], 'note': out[-300:], 'shape': shape}]
        fill = auto is True
        rsrc = os.path.realpath(src)
        e2 = dict(env)
        e2['PKG_CONFIG_PATH'] = os.path.join(bld, 'pkgconfig')
        e2['PKG_CONFIG_DISABLE_UNINSTALLED'] = '1'
        evs = []
        for form, name in (('installed', 'mypkg'),
                           ('uninstalled', 'mypkg-uninstalled')):
            inst = form == 'installed'
            if imode == 'given':
                exp = ['-I' + (os.path.join(prefix, 'include') if inst else
                               os.path.join(rsrc, 'other'))]
            elif imode == 'unset' and fill:
                exp = ['-I' + (os.path.join(prefix, 'include') if inst else
                               os.path.join(rsrc, 'hdir'))]
            else:
                exp = []
            r1, o1 = run(['pkg-config', '--cflags', name], env=e2, cwd=bld)
            evs.append({'ev': 'Flags', 'form': form, 'which': 'cflags',
                        'exit': r1, 'out': syms(o1.replace('\n', ' ')),
                        'expected': [syms(x) for x in exp], 'exact': True,
                        'absent': [], 'shape': shape})
            if lmode == 'given':
                want, absent = ['-lbar'], ['-lfoo']
            elif lmode == 'unset' and fill:
                want, absent = ['-lfoo'], ['-lbar']
                if order != 'plain':      # (in the order of install())
                    want.insert(0, '-louter')
            else:
                want, absent = [], ['-lfoo', '-lbar']
            r2, o2 = run(['pkg-config', '--libs', name], env=e2, cwd=bld)
            evs.append({'ev': 'Flags', 'form': form, 'which': 'libs',
                        'exit': r2, 'out': syms(o2.replace('\n', ' ')),
                        'expected': [syms(x) for x in want], 'exact': False,
                        'absent': [syms(x) for x in absent],
                        'shape': shape})
        return evs
    finally:
        shutil.rmtree(root, ignore_errors=True)


def consumer_case(case):
    """a second bfg9000 project uses the generated package through
    package('mypkg') (the -uninstalled file, found via PKG_CONFIG_PATH) with
    the real gcc: it must configure, build and run.  The library has a
    transitive static dependency (bar), which must reach the consumer's link
    through the private fields when foo is static."""
    kind, incdir = case
    root = scratch('verif-c17c-')
    try:
        a = os.path.join(root, 'a_src')
        b = os.path.join(root, 'b')
        os.makedirs(os.path.join(a, incdir))
        os.makedirs(b)
        W = lambda d, n, t: open(os.path.join(d, n), 'w').write(t)
        W(a, 'bar.c', 'int bar(void){return 40;}\n')
        W(a, 'foo.c', 'int bar(void);int foo(void){return bar()+2;}\n')
        W(os.path.join(a, incdir), 'foo.h', 'int foo(void);\n#define FOO_H 1\n')
        W(a, 'build.bfg',
          "project('a', version='1.0')\n"
          "bar = static_library('bar', ['bar.c'])\n"
          "foo = %s('foo', ['foo.c'], libs=[bar])\n"
          "pkg_config('mypkg', version='1.0', includes=[%r], libs=[foo], "
          "options=['-DFROM_PC=1'])\n" % (
              'library' if kind == 'dual' else kind, incdir))
        W(b, 'main.c', '#include <stdio.h>\n#include <foo.h>\n'
          '#if !defined(FOO_H) || FROM_PC != 1\n#error flags\n#endif\n'
          'int main(void){printf("%d\\n", foo());return 0;}\n')
        # (a static library's own dependencies are in the private fields,
        # which pkg-config hands out for static linking only)
        # (for the dual-use library the consumer links fully statically, so
        # that the archive - and with it its own dependencies - is what the
        # linker takes)
        W(b, 'build.bfg', "project('b')\npkg = package('mypkg'%s)\n"
          "executable('prog', ['main.c'], packages=[pkg]%s)\n" % (
              ", kind='static'" if kind in ('static_library', 'dual')
              else '', ", link_options=['-static']" if kind == 'dual'
              else ''))
        env = tool_env()
        abld = os.path.join(root, 'a_build')
        ev = {'ev': 'Consumer', 'kind': kind, 'producer_exit': -1,
              'configure_exit': -1, 'build_exit': -1, 'run_exit': -1,
              'out': -1, 'note': ''}
        # 'dual': library() built both ways; the consumer links statically
        rc, out = run(['/venv/bin/bfg9000', 'configure', abld,
                       '--no-resolve-packages', '--backend=make'] + (
                           ['--enable-shared', '--enable-static']
                           if kind == 'dual' else []), cwd=a, env=env)
        if rc == 0:
            rc, out = run(['make', '-j2'], cwd=abld, env=env)
        ev['producer_exit'] = rc
        if rc != 0:
            ev['note'] = out[-400:]
            return [ev]
        env2 = tool_env({'PKG_CONFIG_PATH': os.path.join(abld, 'pkgconfig'),
                         'MOPACK': os.path.join(BIN, 'mopack-stub')})
        bbld = os.path.join(root, 'b_build')
        rc, out = run(['/venv/bin/bfg9000', 'configure', bbld,
                       '--no-resolve-packages', '--backend=make'], cwd=b,
                      env=env2)
        ev['configure_exit'] = rc
        if rc != 0:
            ev['note'] = out[-400:]
            return [ev]
        rc, out = run(['make'], cwd=bbld, env=env2)
        ev['build_exit'] = rc
        if rc != 0:
            ev['note'] = out[-500:]
            return [ev]
        r = subprocess.run([os.path.join(bbld, 'prog')], capture_output=True,
                           text=True, env={'PATH': '/usr/bin:/bin'}, cwd='/')
        ev['run_exit'] = r.returncode
        try:
            ev['out'] = int(r.stdout.strip())
        except ValueError:
            ev['note'] = (r.stdout + r.stderr)[-300:]
        return [ev]
    finally:
        shutil.rmtree(root, ignore_errors=True)


def shape_cases():
    return [(a, i, l, p) for a in (None, False, True)
            for i in ('unset', 'empty', 'given')
            for l in ('unset', 'empty', 'given')
            for p in ('/usr/local',)] + [(True, 'empty', 'empty',
                                          '/opt/my app')] + [
        (a, i, l, '/usr/local', 'dep-first') for a in (None, True)
        for i in ('unset', 'given') for l in ('unset', 'given')]


def flag_cases(ck):
    rnd = random.Random(ck.seed)
    hot = [w for w in ap.words_upto(ap.HOT, 1) if w]
    words = hot + ['${name}', '$x', '$$', 'a${prefix}b', '$(x)', '#', 'a#b',
                   "it's", '\\#'] + \
        ap.sample_words(rnd, ap.HOT, 40 if ck.quick else 600, 2, 3) \
        + ap.sample_words(rnd, [c for c in ap.SIGMA if ord(c) < 128],
                          30 if ck.quick else 500, 2, 7)
    cases = []
    for i in range(0, len(words), 3):
        grp = words[i:i + 3]
        opts = ['-DW%d=%s' % (k, w) for k, w in enumerate(grp)]
        lopts = ['-L' + w for w in grp if w.strip()]
        incs = [w for w in grp if w.strip() and '/' not in w and '\\' not in w
                and w not in ('.', '..') and not w.startswith('~')][:2]
        cases.append((opts, lopts, ['inc' + d for d in incs],
                      rnd.choice(['/usr/local', '/opt/my app', '/opt/c#sdk'])))
    return cases


def main(argv):
    ck = Check('C17', argv)
    # design model of simplify_specifiers vs the reference
    r = tlc_ok('Specs', TRACE.replace('TraceSpec', 'Spec') +
               'INVARIANT Report\n')
    fails = [p for p in r.prints if isinstance(p, list) and p and
             p[0] == 'DESIGN-FAIL']
    ck.add_model(r, 'Specs: simplify_specifiers model vs reference, all sets '
                 'of <= 3 specifiers')
    ck.note('design_model_failing_sets', [spec_str(f[1]) for f in fails])

    evs = simplify_events(3)
    if len(evs) != r.distinct:
        raise MachineryError('set count %d != TLC states %d' % (len(evs),
                                                                r.distinct))
    sets2 = list(all_sets(2))
    rnd = random.Random(ck.seed)
    if ck.quick:
        sets2 = rnd.sample(sets2, 60)
    sets1 = [x for x in all_sets(1) if x]
    rjobs = [(x, 'requires') for x in sets2]
    for fld in ('requires_private', 'conflicts'):
        # (an empty conflict set next to requires=['dep'] would be a package
        # that conflicts with its own requirement at every version)
        rjobs += [(x, fld) for x in sets1] + \
            [(x, fld) for x in rnd.sample(sets2, min(len(sets2), 25 if
                                                       ck.quick else 400))
             if x or fld != 'conflicts']
    rjobs += [(x, 'both') for x in sets2 if len(x) == 2][:25 if ck.quick
                                                        else 400]
    rjobs += [(x, 'auto') for x in sets2 if len(x) == 2][:25 if ck.quick
                                                        else 400]
    req = pmap(requires_case, rjobs)
    fl = pmap(flags_case, flag_cases(ck)) + pmap(shape_case, shape_cases())
    fl += pmap(consumer_case, [(k, d) for k in (
        'static_library', 'shared_library', 'library', 'dual')
        for d in ('inc', 'my inc')])
    traces, meta = [], []
    for e in evs:
        traces.append([{k: v for k, v in e.items() if k != 'result'}])
        meta.append(e)
    for e in req:
        traces.append([{k: v for k, v in e.items()
                        if k not in ('note', 'forms_agree')}])
        meta.append(e)
    for group in fl:
        for e in group:
            traces.append([{k: v for k, v in e.items()
                            if k not in ('note', 'shape')}])
            meta.append(e)
    tr = [{'id': i + 1, 'events': t} for i, t in enumerate(traces)]
    rej, st = validate_traces('PkgConfig_Trace', TRACE, tr, chunk=400)
    ck.traces = len(tr)
    ck.evaluations = len(tr)
    ck.states += st['distinct']
    ck.transitions += st['generated']
    from engine import unsyms
    for tid, info in sorted(rej.items()):
        e = meta[tid - 1]
        if e['ev'] == 'Simplify':
            s = e['set']
            shape = 'ge+le+ne-same-version' if (
                len(s) == 3 and {x['op'] for x in s} == {'>=', '<=', '!='}
                and len({x['v'] for x in s}) == 1) else spec_str(s)
            key = 'C17:simplify:%s:%s' % (info[0], shape)
            what = 'simplify_specifiers(%r) -> %s' % (
                spec_str(s), 'raised' if e['raised'] else e.get('result'))
        elif e['ev'] == 'Consumer':
            key = 'C17:consumer:%s:%s' % (info[0], e['kind'])
            what = 'consumer of %s: %s' % (e['kind'], json.dumps(e))
        elif e['ev'] == 'Requires':
            key = 'C17:%s:%s:%s' % (e['field'], info[0], spec_str(e['set']))
            if e['field'] == 'conflicts' and len(e['set']) > 1:
                key = 'C17:conflicts:%s:several-specifiers' % info[0]
            what = 'requires=%r: configure exit %d, exists %r %s' % (
                spec_str(e['set']), e['configure_exit'], e['exists'],
                e.get('note', ''))
        else:
            chars = ''.join(sorted({c for x in e['expected'] for c in
                                    unsyms(x) if not c.isalnum() and
                                    c not in '-=/_. '}))
            texts = [unsyms(x) for x in e['expected']]
            special = 'dollar-brace' if any('${' in x for x in texts) else \
                'backslash-hash' if any('\\#' in x for x in texts) else \
                ''.join(c for c in '#$' if c in chars)
            key = 'C17:flags:%s:%s:%s:%s' % (info[0], e['form'], e['which'],
                                            special or chars)
            if 'shape' in e:
                key = 'C17:shape:%s:%s:%s:auto=%s,includes=%s,libs=%s' % (
                    (info[0], e['form'], e['which']) + tuple(e['shape'][:3]))
                if len(e['shape']) > 3:
                    key += ',order=' + e['shape'][3]
            what = '%s %s: expected %r got %r %s' % (
                e['form'], e['which'], [unsyms(x) for x in e['expected']],
                unsyms(e['out']), e.get('note', ''))
        ck.report(key, what, e)
    ck.sample(meta[5])
    ck.sample({k: v for k, v in meta[-1].items()})
    ck.assumptions += [
        'versions 0.5 .. 3.5 in steps of 0.5; specifier versions 1, 2, 3',
        'pkg-config output is split with sh quoting rules without expansion '
        '(PkgConfLang.tla), as bfg9000\'s own consumer does',
        'libraries are checked by containment (declared link options in '
        'order, -lfoo present); include directories and options exactly']
    ck.finish(exhaustive=True, rule='(b) every specifier set of <= 3 '
              'specifiers over 6 operators x 3 versions through the real '
              'simplify_specifiers (count cross-checked with TLC); every set '
              'of <= 2 (sampled in quick) through pkg_config(requires=) and '
              'the real pkg-config with a fake dependency at 7 versions; (a) '
              'options / link options / include directories with words over '
              'the hot alphabet through both .pc forms; non-trivial = all '
              'but the empty set / the plain words',
              distinct_nontrivial=len(tr) - 1)
