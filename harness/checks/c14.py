"""C14 - linked binaries build, run in place, and survive moving the build
directory.  Specs: Link.tla (DAGs of static/shared libraries with two objects
each; design model of forwarding + keep-first de-duplication; environment
model of a single-pass archive linker; model-checked exhaustively),
Link_Gen.tla, Link_Trace.tla.  Binding: generated C sources, the real
bfg9000, real make + gcc + ar + ld, the real loader."""
import json
import os
import shutil

from engine import (Check, tlc, tlc_ok, validate_traces, pmap, run, tool_env,
                    scratch, MachineryError)

# directory layouts of the libraries (1..) and of the executable (0): unrelated
# directories; directories whose names are string prefixes of each other
# (bin / bin-support / binx, lib / lib64); the build root; nesting
LAYOUTS = [{0: 'bin', 1: 'd1', 2: 'd2/sub', 3: 'top/a/b', 4: ''},
           {0: 'bin', 1: 'bin-support', 2: 'bin/inner', 3: 'binx', 4: 'b'},
           {0: 'pkg/lib', 1: 'pkg/lib64', 2: 'pkg/lib/x', 3: 'pkg', 4: ''},
           {0: 'a.b', 1: 'a', 2: '', 3: 'a.b.c/d', 4: 'a.b'},
           {0: '', 1: 'lib', 2: 'lib2', 3: 'lib/2', 4: ''}]
MODES = [[], ['--disable-shared', '--enable-static'],
         ['--enable-shared', '--enable-static']]


def mc_cfg(n, keep_first=False):
    return ('CONSTANTS N = %d KeepFirst = %s\nSPECIFICATION Spec\n'
            'INVARIANT Report\nCHECK_DEADLOCK FALSE\n' % (
                n, 'TRUE' if keep_first else 'FALSE'))


def gen_cfg(n, nseeds, seed):
    return ('CONSTANTS N = %d KeepFirst = FALSE NSeeds = %d SeedBase = %d\n'
            'SPECIFICATION GenSpec\nINVARIANT Emit\nCHECK_DEADLOCK FALSE\n'
            % (n, nseeds, seed))


def lname(i, layout=0):
    d = LAYOUTS[layout].get(i, '')
    return (d + '/' if d else '') + ('L%d' % i if i else 'prog')


def build_case(case):
    n = len(case['kind'])
    root = scratch('verif-c14-')
    try:
        src = os.path.join(root, 'src')
        os.makedirs(src)
        L = ["project('p')"]
        for i in range(1, n + 1):
            deps = case['deps'][i - 1]
            with open(os.path.join(src, 'L%da.c' % i), 'w') as f:
                for j in deps:
                    f.write('int f_%d(void);\n' % j)
                f.write('int f_%d(void) { return %d%s; }\n' % (
                    i, i, ''.join(' + f_%d()' % j for j in deps)))
            with open(os.path.join(src, 'L%db.c' % i), 'w') as f:
                f.write('int g_%d(void) { return %d; }\n' % (i, 100 * i))
            fn = {'static': 'static_library', 'shared': 'shared_library',
                  'library': 'library'}[case['kind'][i - 1]]
            lo = ''
            if case.get('lopt', [False] * n)[i - 1]:
                lo = ", link_options=['-u', 'g_%d']" % i
            L.append("L%d = %s(%r, ['L%da.c', 'L%db.c'], libs=[%s]%s)" % (
                i, fn, lname(i, case.get('layout', 0)), i, i,
                ', '.join('L%d' % j for j in deps),
                lo))
        with open(os.path.join(src, 'main.c'), 'w') as f:
            f.write('#include <stdio.h>\n')
            terms = []
            for j in case['elibs']:
                fnn = '%s_%d' % (case['ecall'][j - 1], j)
                f.write('int %s(void);\n' % fnn)
                terms.append(fnn + '()')
            f.write('int main(void) { printf("%%d\\n", %s); return 0; }\n' %
                    ' + '.join(terms))
        exe = lname(0, case.get('layout', 0))
        L.append("executable(%r, ['main.c'], libs=[%s])" % (exe, ', '.join(
            'L%d' % j for j in case['elibs'])))
        # a second consumer of the same libraries at another depth (run-time
        # search paths are relative to each output's own directory)
        exe2 = 'deep/er/than/prog2'
        L.append("executable(%r, ['main.c'], libs=[%s])" % (exe2, ', '.join(
            'L%d' % j for j in case['elibs'])))
        open(os.path.join(src, 'build.bfg'), 'w').write('\n'.join(L) + '\n')
        env = tool_env()
        bld = os.path.join(root, 'build')
        events = [{'ev': 'Config', 'kind': case['kind'], 'deps': case['deps'],
                   'elibs': case['elibs'], 'ecall': case['ecall']}]
        rc, out = run(['/venv/bin/bfg9000', 'configure', bld,
                       '--no-resolve-packages', '--backend=make'] +
                      case.get('mode', []), cwd=src, env=env)
        if rc != 0:
            events.append({'ev': 'Build', 'exit': 100 + rc,
                           'note': out[-300:]})
            return events
        rc, out = run(['make', '-j2'], cwd=bld, env=env)
        events.append({'ev': 'Build', 'exit': rc,
                       'note': out[-500:] if rc else ''})
        if rc != 0:
            return events

        def runprog(b, which=None):
            e = {'PATH': '/usr/bin:/bin'}
            rc, out = run([os.path.join(b, which or exe)], cwd='/', env=e)
            try:
                val = int(out.strip())
            except ValueError:
                val = -1
            return {'ev': 'Run', 'exit': rc, 'out': val,
                    'note': out[-200:] if rc else ''}
        events.append(runprog(bld))
        events.append(runprog(bld, exe2))
        moved = os.path.join(root, 'elsewhere', 'moved build')
        os.makedirs(os.path.dirname(moved))
        os.rename(bld, moved)
        events.append({'ev': 'Move'})
        events.append(runprog(moved))
        events.append(runprog(moved, exe2))
        return events
    finally:
        shutil.rmtree(root, ignore_errors=True)


def whole_case(arg):
    """whole_archive(): a static library wrapped into a shared library (the
    executable calls functions of both of its objects through the shared
    library only), and linked whole into an executable that calls nothing"""
    layout, mode = arg
    lay = LAYOUTS[layout]

    def at(i, name):
        return (lay[i] + '/' if lay[i] else '') + name
    root = scratch('verif-c14w-')
    try:
        src = os.path.join(root, 'src')
        os.makedirs(src)
        W = lambda n, t: open(os.path.join(src, n), 'w').write(t)
        W('L1a.c', 'int f_1(void){return 1;}\n')
        W('L1b.c', 'int g_1(void){return 100;}\n')
        W('L2a.c', 'int f_2(void){return 2;}\n')
        W('L2b.c', 'int g_2(void){return 200;}\n')
        W('S.c', 'int f_3(void);int s(void){return 5;}'
          'int s3(void){return f_3();}\n')
        # a further static library that itself depends on (plain) L1: the
        # shared library lists the whole archive AND gets the plain one
        # forwarded - the archive must still be taken whole
        W('L3.c', 'int f_1(void);int f_3(void){return f_1()+10;}\n')
        W('main.c', '#include <stdio.h>\nint f_1(void);int g_1(void);'
          'int f_2(void);int g_2(void);int f_3(void);'
          'int s(void);int main(void){printf("%d\\n", f_1()+g_1()+f_2()+'
          'g_2()+s()+s3());return 0;}\n')
        W('main2.c', 'int main(void){return 0;}\n')
        W('build.bfg', "project('p')\n"
          "L1 = static_library(%r, ['L1a.c', 'L1b.c'])\n"
          "L2 = static_library(%r, ['L2a.c', 'L2b.c'])\n"
          "L3 = static_library('L3', ['L3.c'], libs=[L1])\n"
          "S = shared_library(%r, ['S.c'], libs=[whole_archive(L1), "
          "whole_archive(L2), L3])\n"
          "executable(%r, ['main.c'], libs=[S])\n"
          "executable(%r, ['main2.c'], libs=[whole_archive(L1), "
          "whole_archive(L2)])\n" % (
              at(1, 'L1'), at(3, 'L2'), at(2, 'S'), at(0, 'prog'),
              at(0, 'prog2')))
        env = tool_env()
        bld = os.path.join(root, 'build')
        rc, out = run(['/venv/bin/bfg9000', 'configure', bld,
                       '--no-resolve-packages', '--backend=make'] + mode,
                      cwd=src, env=env)
        if rc != 0:
            return [{'ev': 'Build', 'exit': 100 + rc, 'note': out[-300:]}]
        rc, out = run(['make', '-j2'], cwd=bld, env=env)
        events = [{'ev': 'Build', 'exit': rc, 'note': out[-500:] if rc else ''}]
        if rc != 0:
            return events

        def runprog(b):
            rc, out = run([os.path.join(b, at(0, 'prog'))], cwd='/',
                          env={'PATH': '/usr/bin:/bin'})
            try:
                val = int(out.strip())
            except ValueError:
                val = -1
            return {'ev': 'RunRaw', 'exit': rc, 'out': val, 'want': 319,
                    'note': out[-200:] if rc else ''}
        events.append(runprog(bld))
        rc, out = run(['nm', os.path.join(bld, at(0, 'prog2'))], env=env)
        events.append({'ev': 'Symbols', 'want': ['f_1', 'g_1', 'f_2', 'g_2'],
                       'defined': [
            ln.split()[-1] for ln in out.splitlines()
            if len(ln.split()) == 3 and ln.split()[1] == 'T']})
        moved = os.path.join(root, 'elsewhere', 'moved build')
        os.makedirs(os.path.dirname(moved))
        os.rename(bld, moved)
        events.append({'ev': 'Move'})
        events.append(runprog(moved))
        return events
    finally:
        shutil.rmtree(root, ignore_errors=True)


def main(argv):
    ck = Check('C14', argv)
    n = 3
    r = tlc('Link', mc_cfg(n))
    if r.error and not r.prints and 'No error has been found' not in r.out:
        raise MachineryError(r.tail())
    now_fail = [p[1] for p in r.prints if isinstance(p, list) and p and
                p[0] == 'DESIGN-FAIL']
    ck.add_model(r, 'Link (keep-last): all DAGs of %d libraries x kinds x '
                 'listing orders x called objects' % n)
    ck.note('design_model_failing_configs', len(now_fail))
    if now_fail:
        ck.report('C14:design:link-order', 'the design model of the current '
                  'forwarding/de-duplication predicts failing links: %s' %
                  json.dumps(now_fail[:3]))
    # vacuity guard + source of hard cases: the pinned tree's keep-first rule
    r0 = tlc('Link', mc_cfg(n, keep_first=True))
    fails = [p[1] for p in r0.prints if isinstance(p, list) and p and
             p[0] == 'DESIGN-FAIL']
    ck.note('design_model_failing_configs_keep_first', len(fails))
    if not fails:
        ck.machinery('vacuity guard: the keep-first model predicts no '
                     'failing link')
    ns = 36 if ck.quick else 900
    g = tlc_ok('Link_Gen', gen_cfg(n, ns, ck.seed))
    cases = [p for p in g.prints if isinstance(p, dict) and 'elibs' in p]
    if len(cases) < ns // 2:
        raise MachineryError('Link_Gen gave %d cases\n%s' % (len(cases),
                                                             g.tail()))
    # a few of the configurations the design model itself predicts to fail
    import random
    rnd = random.Random(ck.seed)
    for f in rnd.sample(fails, min(len(fails), 6 if ck.quick else 80)):
        cases.append(dict(f, ok=False, expected=None))
    for i, c in enumerate(cases):
        c['mode'] = MODES[i % len(MODES)]
        c['layout'] = (i // 2) % len(LAYOUTS)
        if i % 5 == 4:       # dual-use libraries follow the configured mode
            c['kind'] = ['library' if k == 'shared' else k
                         for k in c['kind']]
    # directed: shared libraries that need each other, in every layout
    # (run-time search paths between sibling / nested / prefix-named dirs)
    for lay in range(len(LAYOUTS)):
        for kind, deps, elibs in (
                (['shared'] * 3, [[], [1], [1, 2]], [3, 1]),
                (['shared', 'static', 'shared'], [[], [1], [2]], [3]),
                (['shared'] * 3, [[], [], []], [2, 3, 1])):
            cases.append({'kind': kind, 'deps': deps, 'elibs': elibs,
                          'ecall': ['f', 'f', 'f'], 'lopt': [False] * 3,
                          'ok': True, 'expected': None, 'mode': [],
                          'layout': lay})
    # diamonds over four libraries (a static library reached over two paths
    # that itself has a static dependency); validated with N = 4
    dcases = []
    for kinds in (['static'] * 4, ['static', 'static', 'shared', 'static'],
                  ['shared', 'static', 'static', 'static']):
        for elibs in ([3, 4], [4, 3], [4, 3, 2]):
            dcases.append({'kind': kinds, 'deps': [[], [1], [2], [2]],
                           'elibs': elibs, 'ecall': ['f'] * 4,
                           'lopt': [False] * 4, 'ok': True, 'expected': None,
                           'mode': [], 'layout': len(dcases) % len(LAYOUTS)})
    dres = pmap(build_case, dcases, jobs=12)
    res = pmap(build_case, cases, jobs=12)
    wjobs = [(lay, MODES[lay % len(MODES)]) for lay in range(len(LAYOUTS))]
    wres = pmap(whole_case, wjobs, jobs=12)
    traces = [{'id': i + 1, 'events': [
        {k: v for k, v in e.items() if k != 'note'} for e in ev]}
        for i, ev in enumerate(res)]
    # `library` kinds are resolved by the mode for the model: shared unless
    # shared is disabled
    for tr, c in zip(traces, cases):
        shared_on = '--disable-shared' not in c['mode']
        tr['events'][0]['kind'] = [
            ('shared' if shared_on else 'static') if k == 'library' else k
            for k in c['kind']]
    for (lay, mode), ev in zip(wjobs, wres):
        cases.append({'whole_archive': True, 'layout': lay, 'mode': mode,
                      'deps': [[]], 'kind': [], 'elibs': [], 'ecall': []})
        res.append(ev)
        traces.append({'id': len(traces) + 1, 'events': [
            {k: v for k, v in e.items() if k != 'note'} for e in ev]})
    dtr = [{'id': 100000 + i, 'events': [
        {k: v for k, v in e.items() if k != 'note'} for e in ev]}
        for i, ev in enumerate(dres)]
    drej, dst = validate_traces('Link_Trace', 'CONSTANTS N = 4 KeepFirst = '
                                'FALSE\nSPECIFICATION TraceSpec\n'
                                'CHECK_DEADLOCK FALSE\n', dtr, chunk=50)
    for tid, info in sorted(drej.items()):
        c = dcases[tid - 100000]
        ev = dres[tid - 100000][info[1] - 1]
        ck.report('C14:%s:diamond' % info[0], '%s: %s\nconfig %s' % (
            info[0], json.dumps(ev)[:600], json.dumps(c)),
            {'case': c, 'events': dres[tid - 100000]})
    ck.states += dst['distinct']
    ck.transitions += dst['generated']
    rej, st = validate_traces('Link_Trace', 'CONSTANTS N = %d KeepFirst = '
                              'FALSE\nSPECIFICATION TraceSpec\n'
                              'CHECK_DEADLOCK FALSE\n' % n, traces, chunk=50)
    predicted = st['info'].get('DESIGN-PREDICTS-LINK-FAILURE', 0)
    ck.traces = len(traces)
    ck.evaluations = sum(len(t['events']) for t in traces)
    ck.states += st['distinct']
    ck.transitions += st['generated']
    for tid, info in sorted(rej.items()):
        c = cases[tid - 1]
        ev = res[tid - 1][info[1] - 1]
        kinds = traces[tid - 1]['events'][0].get('kind', [])
        # the design model (forwarded libraries appended, first occurrence
        # kept, single-pass linker) itself predicts this link to fail
        shape = ('design-predicted-keep-first-order'
                 if tid in st['info_ids'].get('DESIGN-PREDICTS-LINK-FAILURE',
                                              set()) else 'other')
        moved = any(e['ev'] == 'Move' for e in res[tid - 1][:info[1]])
        ck.report('C14:%s:%s%s' % (info[0], shape, ':moved' if moved else ''),
                  '%s: %s\nconfig %s' % (info[0], json.dumps(ev)[:600],
                                         json.dumps(c)), {'case': c,
                                                          'events': res[tid - 1]})
    ck.note('design_predicted_failures_among_built', predicted)
    ck.sample({'case': cases[0], 'events': res[0]})
    ck.assumptions += [
        'x86-64 Linux, gcc/ld as installed; libraries contain functions only',
        'the loader runs the program with an empty environment (no '
        'LD_LIBRARY_PATH) from an unrelated working directory']
    ck.finish(rule='cases = Link_Gen DAGs (3 libraries in nested different '
              'output directories, static/shared/dual, any listing order, '
              'either object of a listed library called) x 3 library modes, '
              'plus a sample of the configurations the design model predicts '
              'to fail; each is built with gcc, run, moved and run again; '
              'non-trivial = DAG with at least one library dependency',
              distinct_nontrivial=sum(1 for c in cases
                                      if any(c['deps'])))
