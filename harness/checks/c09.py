"""C09 - the saved configuration is the only input of later regenerations.
(a) EnvVars.tla: EnvVarDict as a sequential object (TLC: invariant
    Apply(changes, initial) = current on every reachable state; generated
    operation sequences replayed on the real class, traces validated);
(b) Environment.save / load round trip, including files down-converted to
    every older format version the loader upgrades;
(c) Config_Trace.tla: real configure under E0 with a toolchain file, then
    regenerate / env / run under a perturbed ambient environment and cwd."""
import copy
import json
import os
import shutil
import sys

from engine import (Check, tlc_ok, validate_traces, pmap, scratch, run,
                    tool_env, BIN, MachineryError)

KEYS = ['K1', 'K2', 'CC']
VALS = ['a', 'b']


def ecfg(mode, maxops, nseeds=0, seed=0):
    c = 'CONSTANTS\n Keys = {%s}\n Vals = {%s}\n MaxOps = %d\n' % (
        ', '.join('"%s"' % k for k in KEYS),
        ', '.join('"%s"' % v for v in VALS), maxops)
    if mode == 'mc':
        c += ('SPECIFICATION Spec\nVIEW View\n'
              'INVARIANT ChangesReproduceCurrent\nCHECK_DEADLOCK FALSE\n')
    elif mode == 'gen':
        c += (' NSeeds = %d\n SeedBase = %d\nSPECIFICATION GenSpec\n'
              'INVARIANT GenHist\nCHECK_DEADLOCK FALSE\n' % (nseeds, seed))
    else:
        c += 'SPECIFICATION TraceSpec\nCHECK_DEADLOCK FALSE\n'
    return c


def pairs(d):
    return sorted([k, ('<None>' if v is None else v)] for k, v in d.items())


def replay_envvars(EnvVarDict, hist):
    hist = [dict(h, m=(h['m'] if isinstance(h['m'], dict) else {}))
            if 'm' in h else h for h in hist]
    d = None
    events = []
    for h in hist:
        op = h['op']
        ev = dict(h)
        ev.setdefault('k', '')
        ev.setdefault('v', '')
        ev['ret'] = ''
        ev['raised'] = False
        if 'm' in h:
            ev['m'] = pairs(h['m'])
        else:
            ev['m'] = []
        try:
            if op == 'New':
                d = EnvVarDict(dict(h['m']))
            elif op == 'Set':
                d[h['k']] = h['v']
            elif op == 'Del':
                del d[h['k']]
            elif op == 'Clear':
                d.clear()
            elif op == 'Pop':
                d.pop(h['k'], None)
            elif op == 'PopItem':
                ev['ret'] = d.popitem()[0]
            elif op == 'SetDefault':
                d.setdefault(h['k'], h['v'])
            elif op == 'Update':
                d.update(dict(h['m']))
            elif op == 'Reset':
                d.reset()
            elif op == 'JsonRT':
                d = EnvVarDict.from_json(json.loads(json.dumps(d.to_json())))
        except KeyError:
            ev['raised'] = True
        ev['obs'] = {'initial': pairs(d.initial), 'current': pairs(dict(d)),
                     'changes': pairs(d.changes)}
        events.append(ev)
    return events


# ------------------------------------------------------------------ (b)
def downgrade(data, v):
    """inverse of the loader's upgrade steps: current format -> version v"""
    d = copy.deepcopy(data)
    if v < 17:
        for i in ('datadir', 'mandir'):
            d['install_dirs'].pop(i, None)
    if v < 16:
        d.pop('compdb')
    if v < 15:
        d.pop('mopack')
        vs = d.pop('variables')
        d['initial_variables'] = vs['initial']
        d['variables'] = vs['current']
    if v < 14:
        for i in ('host_platform', 'target_platform'):
            d[i] = d[i]['species']
    if v < 13:
        d.pop('initial_variables')
        d.pop('toolchain')
    if v < 12:
        d['platform'] = d.pop('host_platform')
        d.pop('target_platform')
    if v < 11:
        for i in ('bfgdir', 'srcdir', 'builddir'):
            d[i] = d[i][:2]
        for i in d['install_dirs']:
            if d['install_dirs'][i] is not None:
                d['install_dirs'][i] = d['install_dirs'][i][:2]
    if v < 10:
        d['install_dirs'].pop('exec_prefix')
        for i in ('bindir', 'libdir'):
            if d['install_dirs'][i][1] == 'exec_prefix':
                d['install_dirs'][i][1] = 'prefix'
    if v < 9:
        d.pop('library_mode')
    if v < 8:
        d.pop('extra_args')
    return d


def representable(cfg, v):
    """can format version v express this configuration?"""
    if v < 16 and not cfg['compdb']:
        return False
    if v < 15 and cfg['mopack']:
        return False
    if v < 13 and (cfg['toolchain'] or cfg['changed_vars']):
        return False
    if v < 9 and cfg['library_mode'] != [True, False]:
        return False
    if v < 8 and cfg['extra_args']:
        return False
    if v < 11 and cfg['destdir_dirs']:
        return False
    if v < 12 and cfg.get('cross'):
        return False       # one platform only
    return True


def env_projection(env):
    return {
        'backend': env.backend, 'backend_version': str(env.backend_version),
        'bfgdir': env.bfgdir.to_json(), 'srcdir': env.srcdir.to_json(),
        'builddir': env.builddir.to_json(),
        'install_dirs': {k.name: (v.to_json() if v else None)
                         for k, v in env.install_dirs.items()},
        'toolchain': env.toolchain.to_json(),
        'library_mode': list(env.library_mode), 'compdb': env.compdb,
        'extra_args': env.extra_args,
        'initial': dict(env.variables.initial),
        'current': dict(env.variables),
        'host': env.host_platform.to_json(),
        'target': env.target_platform.to_json(),
    }


def roundtrips(ck, n):
    sys.path.insert(0, os.environ.get('VERIF_REPO', '/repo'))
    import random
    from bfg9000.environment import Environment
    from bfg9000.path import Path, Root, InstallRoot
    from bfg9000.versioning import Version
    rnd = random.Random(ck.seed)
    names = ['CC', 'CFLAGS', 'X Y', 'é', 'A=B', 'EMPTY', 'PATH', 'q"uote']
    values = ['', 'gcc', '-O2 -g', "it's", 'a\\b', '$HOME', 'ü ñ', '  ']
    events = []
    root = scratch('verif-c09b-')
    try:
        for i in range(n):
            env = Environment(Path('/opt/bfg/', Root.absolute), rnd.choice(
                ['make', 'ninja']), Version('1.%d' % rnd.randint(0, 9)),
                Path('/s r c/', Root.absolute), Path('/b/', Root.absolute))
            initial = {rnd.choice(names): rnd.choice(values)
                       for _ in range(rnd.randint(0, 4))}
            env.variables = type(env.variables)(initial)
            changed = rnd.random() < 0.6
            if changed:
                for _ in range(rnd.randint(1, 3)):
                    k = rnd.choice(names)
                    if rnd.random() < 0.3 and k in env.variables:
                        del env.variables[k]
                    else:
                        env.variables[k] = rnd.choice(values)
            idirs = {}
            for k in InstallRoot:
                if rnd.random() < 0.4:
                    idirs[k] = Path(rnd.choice(['/usr', '/opt/my app',
                                                '/x/y']) + '/' + k.name,
                                    Root.absolute)
            toolchain = rnd.random() < 0.4
            if toolchain:
                env.toolchain.path = Path('/tc/file.bfg', Root.absolute)
            # a third of the configurations are cross-compilations to a
            # platform without a default prefix (install directories that
            # are not set are part of the configuration too)
            if i % 3 == 2:
                from bfg9000.platforms import target as _target
                env.target_platform = _target.platform_info('winnt')
                idirs.pop(InstallRoot.prefix, None)
            cfg = {'compdb': rnd.random() < 0.7,
                   'library_mode': rnd.choice([[True, False], [False, True],
                                               [True, True]]),
                   'extra_args': rnd.choice([[], [], ['--foo', 'a b']]),
                   'mopack': [], 'toolchain': toolchain,
                   'changed_vars': changed, 'destdir_dirs': False,
                   'cross': i % 3 == 2}
            env.finalize(idirs, cfg['library_mode'], cfg['compdb'],
                         cfg['extra_args'])
            want = env_projection(env)
            d = os.path.join(root, 'c%d' % i)
            os.makedirs(d)
            env.save(d)
            saved = json.load(open(os.path.join(d, '.bfg_environ')))
            versions = [17] + [v for v in range(7, 17)
                               if representable(cfg, v)]
            for v in versions:
                dv = os.path.join(d, 'v%d' % v)
                os.makedirs(dv)
                data = saved['data'] if v == 17 else downgrade(
                    saved['data'], v)
                json.dump({'version': v, 'data': data},
                          open(os.path.join(dv, '.bfg_environ'), 'w'))
                try:
                    got = env_projection(Environment.load(dv))
                    exc = ''
                except Exception as e:
                    got, exc = None, '%s: %s' % (type(e).__name__, e)
                w2 = copy.deepcopy(want)
                g2 = copy.deepcopy(got)
                if got is not None and v < 17:
                    # datadir/mandir did not exist: re-derived from defaults
                    for d2 in (w2, g2):
                        for k in ('datadir', 'mandir'):
                            d2['install_dirs'].pop(k, None)
                if got is not None and v < 10:
                    # exec_prefix did not exist
                    for d2 in (w2, g2):
                        for k in ('exec_prefix', 'bindir', 'libdir'):
                            d2['install_dirs'].pop(k, None)
                diffs = [] if got is None else sorted(
                    k for k in w2 if w2[k] != g2[k])
                if v < 17:
                    # information the old format cannot hold is filled with
                    # defaults by the upgrade: not part of the comparison
                    for k in ('backend_version',):
                        if v < 6 and k in diffs:
                            diffs.remove(k)
                    if v < 17:
                        # datadir/mandir are re-derived from the platform
                        pass
                events.append({'version': v, 'loaded': got is not None,
                               'diffs': diffs, 'exc': exc, 'case': i,
                               'equal': got is not None and not diffs,
                               'cfg': cfg})
        return events
    finally:
        shutil.rmtree(root, ignore_errors=True)


# ------------------------------------------------------------------ (c)
def end_to_end(case):
    root = scratch('verif-c09c-')
    try:
        src = os.path.join(root, 'src')
        bld = os.path.join(root, 'build')
        os.makedirs(src)
        open(os.path.join(src, 'm.c'), 'w').write('int main(){return 0;}\n')
        open(os.path.join(src, 'n.cpp'), 'w').write('int n;\n')
        open(os.path.join(src, 'build.bfg'), 'w').write(
            "project('p')\n"
            "executable('prog', ['m.c', 'n.cpp'])\n"
            "command('showenv', cmd=[%r, 'ID'])\n"
            # a tool looked up by name on the configure-time PATH
            "command('usetool', cmd=[system_executable('rec'), 'T'])\n" %
            os.path.join(BIN, 'rec'))
        args = []
        if case['toolchain']:
            tc = os.path.join(root, 'tc.bfg')
            open(tc, 'w').write(''.join(
                "environ[%r] = environ.get(%r, '') + %r\n" % (k, k, v)
                if app else "environ[%r] = %r\n" % (k, v)
                for k, v, app in case['toolchain']))
            args += ['--toolchain', tc]
        if case.get('tcraw'):
            tc = os.path.join(root, 'tc.bfg')
            with open(tc, 'a') as f_:
                f_.write(case['tcraw'])
            if '--toolchain' not in args:
                args += ['--toolchain', tc]
        args += case['args']
        # the compilers are named either by their paths, or the C compiler by
        # a bare command name that only the configure-time PATH resolves
        # (wrappers `gcc` / `g++` around the stubs in a scratch directory) and
        # the C++ compiler not at all (bfg9000 guesses the sibling `g++`)
        tools = os.path.join(root, 'tools')
        os.makedirs(tools)
        os.makedirs(os.path.join(root, 'emptybin'))
        for nm, stub in (('gcc', 'stubcc'), ('g++', 'stubcxx')):
            w = os.path.join(tools, nm)
            open(w, 'w').write('#!/bin/sh\nexec %s "$@"\n' %
                               os.path.join(BIN, stub))
            os.chmod(w, 0o755)
        if case.get('relcc'):
            e0 = tool_env({'CC': 'gcc'})
            e0['PATH'] = tools + ':' + e0['PATH']
        else:
            e0 = tool_env({'CC': os.path.join(BIN, 'stubcc'),
                           'CXX': os.path.join(BIN, 'stubcxx')})
        e0.update(case['e0'])
        if case.get('othermake'):
            # the build tool named at configure time is not GNU Make (no
            # version detected): still the backend every later run restores
            w = os.path.join(tools, 'bmake')
            open(w, 'w').write('#!/bin/sh\necho "bmake 20200101"\n')
            os.chmod(w, 0o755)
            e0['MAKE'] = w
        rc, out = run(['/venv/bin/bfg9000', 'configure', bld,
                       '--no-resolve-packages', '--backend=make'] + args,
                      cwd=src, env=e0)
        if rc != 0:
            return {'case': case, 'configure_exit': rc, 'out': out[-300:]}

        def snapshot():
            o = {}
            for n in ('Makefile', 'compile_commands.json'):
                p = os.path.join(bld, n)
                o[n] = open(p).read() if os.path.exists(p) else None
            return o

        def saved_vars():
            # (the variables, and the platforms the configuration was made
            # for and on)
            d = json.load(open(os.path.join(bld, '.bfg_environ')))
            return dict(d['data']['variables'],
                        _platforms=[d['data'].get('host_platform'),
                                    d['data'].get('target_platform')])
        base = snapshot()
        v0 = saved_vars()
        rc0, envout0 = run(['/venv/bin/bfg9000', 'env', bld], cwd=root,
                           env=e0)
        later = []
        for step in case['later']:
            e1 = tool_env({'CC': '/nonexistent/cc'})
            e1.update(step['e1'])
            if e1.get('PATH') == '<empty>':
                e1['PATH'] = os.path.join(root, 'emptybin')
            cwd = {'src': src, 'build': bld, 'root': root}[step['cwd']]
            bdarg = bld if step['abs'] else os.path.relpath(bld, cwd)
            # the later invocation runs under another machine personality
            # (a 32-bit shell on the same host)
            pre = ['/usr/bin/setarch', 'i686'] if step.get('arch') and \
                os.path.exists('/usr/bin/setarch') else []
            if step['cmd'] == 'regenerate':
                rc, out = run(pre + ['/venv/bin/bfg9000', 'regenerate', bdarg],
                              cwd=cwd, env=e1)
                obs = {'outputs_equal': snapshot() == base,
                       'vars_equal': saved_vars() == v0}
            elif step['cmd'] == 'lazy':
                os.utime(os.path.join(src, 'build.bfg'))
                rc, out = run(pre + ['/venv/bin/bfg9000', 'regenerate',
                                     '--lazy', bdarg], cwd=cwd, env=e1)
                obs = {'outputs_equal': snapshot() == base,
                       'vars_equal': saved_vars() == v0}
            elif step['cmd'] == 'env':
                rc, out = run(pre + ['/venv/bin/bfg9000', 'env', bdarg],
                              cwd=cwd, env=e1)
                obs = {'outputs_equal': out == envout0, 'vars_equal': True}
            else:
                rc, out = run(['/venv/bin/bfg9000', 'run', '-B', bdarg, '--',
                               '/usr/bin/env', '-0'], cwd=cwd, env=e1)
                seen = dict(x.split('=', 1) for x in out.split('\0')
                            if '=' in x)
                obs = {'outputs_equal': True,
                       'vars_equal': seen == v0['current']}
            obs.update(cmd=step['cmd'], exit=rc,
                       tail=out[-200:] if rc else '')
            later.append(obs)
        return {'case': case, 'configure_exit': 0, 'later': later}
    finally:
        shutil.rmtree(root, ignore_errors=True)


def e2e_cases(ck, n):
    import random
    rnd = random.Random(ck.seed + 7)
    cases = []
    for i in range(n):
        tc = []
        if rnd.random() < 0.7:
            for _ in range(rnd.randint(1, 3)):
                tc.append([rnd.choice(['CFLAGS', 'LDFLAGS', 'MYVAR',
                                       'CPPFLAGS']),
                           rnd.choice([' -DX', '-O1', 'v w']),
                           rnd.random() < 0.6])
        e0 = {}
        if rnd.random() < 0.6:
            e0['CFLAGS'] = rnd.choice(['-DE0', '-g', '-DA="b c"'])
        if rnd.random() < 0.4:
            e0['UNRELATED'] = rnd.choice(['1', 'x y'])
        later = []
        for _ in range(rnd.randint(2, 4)):
            e1 = {}
            if rnd.random() < 0.7:
                e1['CFLAGS'] = rnd.choice(['-DAMBIENT', ''])
            if rnd.random() < 0.5:
                e1['LDFLAGS'] = '-Lambient'
            if rnd.random() < 0.3:
                e1['UNRELATED'] = 'changed'
            if rnd.random() < 0.5:     # a later PATH without the compilers
                e1['PATH'] = '<empty>'
            later.append({'cmd': rnd.choice(['regenerate', 'lazy', 'env',
                                             'run']),
                          'cwd': rnd.choice(['src', 'build', 'root']),
                          'abs': rnd.random() < 0.5, 'e1': e1,
                          'arch': rnd.random() < 0.4})
        cases.append({'toolchain': tc, 'e0': e0, 'later': later,
                      'tcraw': "target_platform('linux', 'i686')\n"
                      if i % 3 == 0 else '',
                      'othermake': i % 5 == 2,
                      'relcc': i % 2 == 0,
                      'args': rnd.choice([[], ['--prefix', '/opt/my app'],
                                          ['--disable-shared',
                                           '--enable-static'],
                                          ['--disable-compdb']])})
    return cases


def main(argv):
    ck = Check('C09', argv)
    sys.path.insert(0, os.environ.get('VERIF_REPO', '/repo'))
    from bfg9000.environment import EnvVarDict
    # (a) model check + replay
    mo = 4 if ck.quick else 5
    r = tlc_ok('EnvVars', ecfg('mc', mo), timeout=2400)
    if r.invariant_violated:
        ck.machinery('EnvVars design model violates its invariant\n' +
                     r.tail())
    ck.add_model(r, 'EnvVars: all op sequences <= %d over %d keys' %
                 (mo, len(KEYS)))
    # the same invariant for ANY number of operations: inductive check with
    # Apalache over the mutators of EnvVarsCore.tla (base case + step)
    from engine import apalache
    for what, args in (
            ('base', ['--cinit=CInit', '--init=Init0', '--next=IndNext',
                      '--inv=IndInv', '--length=0']),
            ('step', ['--cinit=CInit', '--init=IndInit', '--next=IndNext',
                      '--inv=IndInv', '--length=1'])):
        st_, secs, tail = apalache('EnvVars_Ind', args)
        ck.notes.setdefault('apalache_runs', []).append(
            {'what': 'EnvVars_Ind %s: ChangesReproduceCurrent inductive over '
             'all mutators, 3 keys, 2 values' % what, 'status': st_,
             'wall_s': round(secs, 1)})
        if st_ == 'error':
            ck.machinery('EnvVars_Ind (%s) fails: the design model is not '
                         'inductive\n%s' % (what, tail))
    n, depth = (1500, 8) if ck.quick else (40000, 12)
    g = tlc_ok('EnvVars_Gen', ecfg('gen', depth, n, ck.seed), timeout=2400)
    hists = [p for p in g.prints if isinstance(p, list) and p and
             isinstance(p[0], dict) and p[0].get('op') == 'New']
    if len(hists) < n // 2:
        raise MachineryError('EnvVars_Gen gave %d histories\n%s' %
                             (len(hists), g.tail()))
    traces = [{'id': i + 1, 'events': replay_envvars(EnvVarDict, h)}
              for i, h in enumerate(hists)]
    rej, st = validate_traces('EnvVars_Trace', ecfg('trace', 1), traces,
                              chunk=4000)
    ck.traces += len(traces)
    ck.states += st['distinct']
    ck.transitions += st['generated']
    for tid, info in sorted(rej.items()):
        ev = traces[tid - 1]['events'][info[1] - 1]
        ck.report('C09:EnvVarDict:%s:%s' % (info[0], ev['op']),
                  '%s at %s: %s' % (info[0], ev['op'], json.dumps(ev)),
                  {'history': hists[tid - 1],
                   'events': traces[tid - 1]['events'][:info[1]]})
    ck.sample({'envvars_trace': traces[0]['events'][:4]})

    # (b) save/load round trips, all upgradeable versions
    evb = roundtrips(ck, 40 if ck.quick else 600)
    tb = [{'id': i + 1, 'events': [{'version': e['version'],
                                    'loaded': e['loaded'],
                                    'equal': e['equal']}]}
          for i, e in enumerate(evb)]
    rej, st = validate_traces('Config_Trace', 'CONSTANT Mode = "load"\n'
                              'SPECIFICATION TraceSpec\n'
                              'CHECK_DEADLOCK FALSE\n', tb, chunk=4000)
    ck.traces += len(tb)
    ck.states += st['distinct']
    ck.transitions += st['generated']
    for tid, info in sorted(rej.items()):
        e = evb[tid - 1]
        ck.report('C09:load:v%d:%s:%s' % (e['version'], info[0],
                                          '+'.join(e['diffs']) or 'exc'),
                  'format version %d: %s %s %s' % (
                      e['version'], info[0], e['diffs'], e['exc']), e)
    ck.note('load_versions', sorted({e['version'] for e in evb}))
    ck.sample({'roundtrip': {k: evb[-1][k] for k in ('version', 'equal',
                                                    'cfg')}})

    # (c) end to end
    cases = e2e_cases(ck, 24 if ck.quick else 400)
    resc = pmap(end_to_end, cases)
    tc = []
    for i, res in enumerate(resc):
        evs = [{'ev': 'Configure', 'exit': res['configure_exit']}]
        for o in res.get('later', []):
            evs.append({'ev': 'Later', 'cmd': o['cmd'], 'exit': o['exit'],
                        'outputs_equal': o['outputs_equal'],
                        'vars_equal': o['vars_equal']})
        tc.append({'id': i + 1, 'events': evs})
    rej, st = validate_traces('Config_Trace', 'CONSTANT Mode = "e2e"\n'
                              'SPECIFICATION TraceSpec\n'
                              'CHECK_DEADLOCK FALSE\n', tc, chunk=500)
    ck.traces += len(tc)
    ck.states += st['distinct']
    ck.transitions += st['generated']
    for tid, info in sorted(rej.items()):
        res = resc[tid - 1]
        step = res.get('later', [{}] * 9)[info[1] - 2] if info[1] > 1 else {}
        ck.report('C09:later:%s:%s:%s' % (
            info[0], step.get('cmd', 'configure'),
            'toolchain' if res['case']['toolchain'] else 'plain'),
            '%s: %s' % (info[0], json.dumps(step)), res)
    ck.sample({'end_to_end': resc[0]})
    ck.evaluations = sum(len(t['events']) for t in traces) + len(evb) + \
        sum(len(t['events']) for t in tc)
    ck.assumptions += [
        'old-format files are produced by inverting the documented upgrade '
        'steps (harness/checks/c09.py downgrade) for configurations the old '
        'format can express; versions 7..17',
        'end-to-end runs use the Make backend and a stub compiler; the later '
        'invocations run with CC pointing to a non-existent compiler']
    ck.finish(rule='(a) TLC-generated operation sequences on EnvVarDict, '
              '(b) save/load of randomised configurations in every '
              'upgradeable format version, (c) configure + toolchain file '
              'followed by regenerate/env/run under perturbed environments; '
              'non-trivial = at least one mutating operation / a changed '
              'variable / a perturbed ambient variable',
              distinct_nontrivial=len(traces) + len(evb) + len(tc))
