"""C19 - scripts are isolated and relative: submodules, options, arguments.
Specs: Scope.tla (stack of executing scripts, expected path resolution),
Scope_Gen.tla (trees of submodule scripts + argument spellings), Scope_Trace.tla
(trace validation).  Binding: the generated scripts print probe events
themselves while the real bfg9000 executes them (configure with two argument
spellings, then regenerate)."""
import json
import os
import shutil

from engine import (Check, tlc_ok, validate_traces, pmap, run, tool_env, BIN,
                    scratch, MachineryError)

GEN = ('CONSTANTS NSeeds = %d SeedBase = %d MaxNodes = %d\n'
       'SPECIFICATION GenSpec\nCHECK_DEADLOCK FALSE\n')
TRACE = 'SPECIFICATION TraceSpec\nCHECK_DEADLOCK FALSE\n'
OUTKINDS = ['executable', 'static_library', 'object_file', 'build_step',
            'build_step2', 'copy_file']
PRELUDE = '''import json as _j
def _ev(**kw):
    print('VERIF-EV ' + _j.dumps(kw))
def _res(kind, given, thing):
    p = thing.path
    _ev(ev='Resolve', kind=kind, given=given, root=p.root.name,
        comps=[c for c in p.suffix.split('/') if c])
def _probe(me, owners):
    for o in owners:
        try:
            eval('v_%d' % o)
            vis = True
        except NameError:
            vis = False
        _ev(ev='Probe', owner=o, me=me, vis=vis)
'''


def node_name(parents, i):
    """a submodule is named by its rank among its siblings: scripts in
    different directories name different submodules with the same string"""
    p = parents[i - 1]
    return 'm%d' % (1 + sum(1 for j in range(1, i) if parents[j - 1] == p))


def node_dirs(parents):
    dirs = {0: []}
    for i, p in enumerate(parents, 1):
        dirs[i] = dirs[p] + [node_name(parents, i)]
    return dirs


def script_text(i, case, dirs):
    parents, flags = case['parents'], case['flags']
    n = len(parents)
    fl = flags[i]
    L = []
    if i == 0:
        L.append("project('p')")
    L.append(PRELUDE)
    L.append("_ev(ev='Enter', dir=%r)" % dirs[i])
    L.append("v_%d = 1" % i)
    L.append("_probe(%d, %r)" % (i, list(range(n + 1))))
    L.append("_res('source_file', ['in_%d.txt'], source_file('in_%d.txt'))"
             % (i, i))
    if i > 0 and fl & 64:
        L.append("raise RuntimeError('boom in %d')" % i)
    if dirs[i] and fl & 1:
        L.append("_res('source_file', ['..', 'up_%d.txt'], "
                 "source_file('../up_%d.txt'))" % (i, i))
    if fl & 2:
        L.append("_res('executable', ['prog_%d'], executable('prog_%d', "
                 "['m_%d.c']))" % (i, i, i))
        # ... and the objects of a program with an explicit intermediate_dir
        L.append("_res('intdir_object', ['obj_%d', 'x'], executable("
                 "'progi_%d', ['m_%d.c'], intermediate_dir='obj_%d')"
                 ".creator.files[0])" % (i, i, i, i))
    if fl & 4:
        L.append("_res('static_library', ['l_%d'], static_library('l_%d', "
                 "['n_%d.c']))" % (i, i, i))
    if fl & 8:
        L.append("_res('object_file', ['o_%d'], object_file(file='o_%d.c'))"
                 % (i, i))
    if fl & 16:
        L.append("_res('build_step', ['out_%d.txt'], build_step('out_%d.txt'"
                 ", cmd=['touch', 'out_%d.txt']))" % (i, i, i))
        L.append("_res('build_step2', ['a_%d.txt'], build_step(['a_%d.txt', "
                 "'b_%d.txt'], cmd=['touch', 'a_%d.txt', 'b_%d.txt'])[0])" %
                 (i, i, i, i, i))
    if fl & 32:
        L.append("_res('copy_file', ['in_%d.txt'], copy_file('in_%d.txt'))" %
                 (i, i))
    if i > 0:
        L.append("export(e_%d=%d)" % (i, i))
        L.append("_ev(ev='Export', k='e_%d')" % i)
        if fl & 1:
            L.append("export(f_%d='x')" % i)
            L.append("_ev(ev='Export', k='f_%d')" % i)
    for j, p in enumerate(parents, 1):
        if p == i and flags[j] & 64:
            L.append("try:")
            L.append("    submodule(%r)" % node_name(parents, j))
            L.append("except RuntimeError:")
            L.append("    _ev(ev='Caught')")
            L.append("_res('source_file', ['in_%d.txt'], "
                     "source_file('in_%d.txt'))" % (i, i))
            L.append("_res('executable', ['after_%d'], executable("
                     "'after_%d', ['m_%d.c']))" % (j, j, i))
        elif p == i:
            L.append("_r = submodule(%r)" % node_name(parents, j))
            L.append("_ev(ev='Return', received=sorted(_r.keys()))")
            L.append("_probe(%d, %r)" % (i, list(range(n + 1))))
    if i == 0:
        L.append("_ev(ev='Args', phase='run', spelling='', ns=sorted("
                 "[k, str(v)] for k, v in vars(argv).items()))")
    return '\n'.join(L) + '\n'


OPTIONS = ("argument('name', default='d')\n"
           "argument('foo', action='enable')\n"
           "argument('bar', action='with')\n"
           "argument('num', default='0')\n"
           "argument('x11', action='with')\n"
           "argument('xml', action='enable')\n"
           # declarations with two names (the second is an alias)
           "argument('jobs', 'parallel', default='1')\n"
           "argument('docs', 'manual', action='enable')\n")


def cmdline(case, plain):
    vals, sp = case['argvals'], case['spelling']

    def pre(k):
        return '--x-' if (not plain and sp[k]) else '--'
    out = []
    if vals[0]:
        out.append('%sname=%s' % (pre(0), ['', 'n1', 'a b'][vals[0]]))
    if vals[1]:
        out.append('%s%s-foo' % (pre(1), ['', 'enable', 'disable'][vals[1]]))
    if vals[2]:
        out.append('%s%s-bar' % (pre(2), ['', 'with', 'without'][vals[2]]))
    if vals[3]:
        out.append('%snum=%s' % (pre(3), ['', '7', '-1'][vals[3]]))
    if vals[4]:
        out.append('%s%s-x11' % (pre(4), ['', 'with', 'without'][vals[4]]))
    if vals[5]:
        out.append('%s%s-xml' % (pre(5), ['', 'enable', 'disable'][vals[5]]))
    # the two-name declarations: primary name or alias, derived from the
    # generated values (spelling as for the third / fourth argument)
    v6, v7 = (vals[0] + vals[1]) % 3, (vals[2] + vals[3]) % 3
    if v6:
        out.append('%s%s=4' % (pre(2), ['', 'jobs', 'parallel'][v6]))
    if v7:
        out.append('%s%s' % (pre(3), ['', 'enable-docs',
                                      'disable-manual'][v7]))
    # a value given, overridden and given again (the last one counts; the
    # same token occurs twice on the command line)
    if vals[3]:
        out += ['%snum=%s' % (pre(3), ['', '-1', '7'][vals[3]]),
                '%snum=%s' % (pre(3), ['', '7', '-1'][vals[3]])]
    if vals[1]:
        out += ['%s%s-foo' % (pre(1), ['', 'disable', 'enable'][vals[1]]),
                '%s%s-foo' % (pre(1), ['', 'enable', 'disable'][vals[1]])]
    return out


def events_of(out):
    evs = []
    for line in out.splitlines():
        if line.startswith('VERIF-EV '):
            evs.append(json.loads(line[len('VERIF-EV '):]))
    return evs


def run_case(case):
    root = scratch('verif-c19-')
    try:
        src = os.path.join(root, 'src')
        dirs = node_dirs(case['parents'])
        for i, d in dirs.items():
            sd = os.path.join(src, *d)
            os.makedirs(sd, exist_ok=True)
            with open(os.path.join(sd, 'build.bfg'), 'w') as f:
                f.write(script_text(i, case, dirs))
            for n in ('in_%d.txt', 'm_%d.c', 'n_%d.c', 'o_%d.c'):
                open(os.path.join(sd, n % i), 'w').write('int x%d;\n' % i)
            if d:
                open(os.path.join(sd, '..', 'up_%d.txt' % i), 'w').write('u')
        open(os.path.join(src, 'options.bfg'), 'w').write(OPTIONS)
        env = tool_env({'CC': os.path.join(BIN, 'stubcc'),
                        'AR': os.path.join(BIN, 'stubar')})
        events = []
        for phase, bld, plain in (('configure', 'b1', False),
                                  ('configure-plain', 'b2', True)):
            rc, out = run(['/venv/bin/bfg9000', 'configure',
                           os.path.join(root, bld), '--no-resolve-packages',
                           '--backend=make'] + cmdline(case, plain),
                          cwd=src, env=env)
            evs = events_of(out)
            for e in evs:
                if e['ev'] == 'Args':
                    e['phase'] = phase
                    e['spelling'] = ' '.join(cmdline(case, plain))
            events += evs
            events.append({'ev': 'Exit', 'code': rc,
                           'note': out[-300:] if rc else ''})
        rc, out = run(['/venv/bin/bfg9000', 'regenerate',
                       os.path.join(root, 'b1')], cwd=root, env=env)
        evs = events_of(out)
        for e in evs:
            if e['ev'] == 'Args':
                e['phase'] = 'regenerate'
        events += evs
        events.append({'ev': 'Exit', 'code': rc,
                       'note': out[-300:] if rc else ''})
        return events
    finally:
        shutil.rmtree(root, ignore_errors=True)


def main(argv):
    ck = Check('C19', argv)
    n = 60 if ck.quick else 1500
    g = tlc_ok('Scope_Gen', GEN % (n, ck.seed, 5), timeout=1500)
    ck.add_model(g, 'Scope_Gen: script trees')
    cases = [p for p in g.prints if isinstance(p, dict) and 'parents' in p]
    if len(cases) < n // 2:
        raise MachineryError('Scope_Gen gave %d cases\n%s' % (len(cases),
                                                              g.tail()))
    res = pmap(run_case, cases)
    traces = [{'id': i + 1, 'events': [
        {k: v for k, v in e.items() if k != 'note'} for e in ev]}
        for i, ev in enumerate(res)]
    rej, st = validate_traces('Scope_Trace', TRACE, traces, chunk=100)
    ck.traces = len(traces)
    ck.evaluations = sum(len(t['events']) for t in traces)
    ck.states += st['distinct']
    ck.transitions += st['generated']
    for tid, info in sorted(rej.items()):
        ev = res[tid - 1][info[1] - 1]
        kind = ev.get('kind', ev.get('ev'))
        ck.report('C19:%s:%s' % (info[0], kind), '%s: %s expected/observed '
                  '%s %s' % (info[0], json.dumps(ev), json.dumps(info[2]),
                             ev.get('note', '')),
                  {'case': cases[tid - 1], 'events': res[tid - 1][:info[1]]})
    ck.sample({'case': cases[0], 'events': res[0][:12]})
    ck.assumptions += [
        'output paths are compared by directory (the leaf name follows '
        'platform conventions)',
        'copy_file(..., directory=) and man pages are not probed']
    ck.finish(rule='cases = trees of 1..5 submodule scripts (depth <= 3) '
              'with per-script flags choosing ../ references and the output-'
              'producing builtins, plus argument values and spellings; each '
              'case = configure (mixed --x- spelling), configure (plain), '
              'regenerate; non-trivial = tree with at least one submodule',
              distinct_nontrivial=len(traces))
