"""C15 - install / uninstall place and remove exactly the declared files.
Specs: Install.tla (install-directory defaults, kind -> directory, path
realisation), Install_Gen.tla (configurations), Install_Trace.tla (contract).
Binding: real configure with the generated directory options, real gcc build,
real `make install DESTDIR=...` (doppel, patchelf), tree snapshots, rpath
read-back, real `make uninstall`."""
import json
import os
import shutil
import subprocess

from engine import (Check, tlc_ok, validate_traces, pmap, run, tool_env,
                    scratch, tree_snapshot, MachineryError)

GEN = ('CONSTANTS NSeeds = %d SeedBase = %d\nSPECIFICATION GenSpec\n'
       'CHECK_DEADLOCK FALSE\n')
TRACE = 'SPECIFICATION TraceSpec\nCHECK_DEADLOCK FALSE\n'
KINDS = ['exe', 'shlib', 'slib', 'header', 'hdrdir', 'man', 'data', 'pc']


def mkq(value):
    """a variable given on the make command line is expanded again when it is
    used: a literal '$' has to be written '$$' (GNU Make's rule, not bfg9000's)"""
    return value.replace('$', '$$')


def absdir(comps):
    return '/' + '/'.join(comps)


def script(case):
    items, dirargs = case['items'], case['dirargs']
    L = ["project('p', version='1.0')", "import json as _j",
         "def _paths(x):",
         "    xs = x.all if hasattr(x, 'all') else [x]",
         "    out = []",
         "    for y in xs:",
         "        out.append([y.path.root.name, [c for c in "
         "y.path.suffix.split('/') if c]])",
         "        rt = getattr(y, 'runtime_file', None)",
         "    return out",
         "def _ev(kind, dirarg, x, **kw):",
         "    print('VERIF-INST ' + _j.dumps(dict(kind=kind, dirarg=dirarg, "
         "ret=_paths(x), **kw)))",
         "dep = shared_library('lib/inner/dep', ['dep.c'])",
         # a versioned shared library that is never passed to install(): it
         # is only a (transitive) run-time dependency of the executable
         "dep2 = shared_library('lib/inner/dep2', ['dep2.c'], "
         "version='2.0.1', soversion='2')",
         "mid = shared_library('lib/mid', ['mid.c'], libs=[dep2])",
         "stl = static_library('stl', ['stl.c'])"]

    def d(i):
        a = dirargs[i]
        return (", directory=%r" % '/'.join(a)) if a else ''
    if items[0]:
        L.append("exe = executable('bin/prog', ['main.c'], libs=[dep, mid, stl])")
        L.append("_ev('exe', %r, install(exe%s))" % (dirargs[0], d(0)))
    if items[1]:
        L.append("shl = shared_library('shl', ['shl.c'], version='1.2.3', "
                 "soversion='1')")
        L.append("_ev('shlib', %r, install(shl%s))" % (dirargs[1], d(1)))
    if items[2]:
        L.append("_ev('slib', %r, install(stl%s))" % (dirargs[2], d(2)))
        # ... and a dual-use library: both of its files are installed
        L.append("_ev('slib', %r, install(library('dualib', ['dl.c'], "
                 "kind='dual')%s))" % (dirargs[2], d(2)))
    if items[3]:
        L.append("_ev('header', %r, install(header_file('single.h')%s))" %
                 (dirargs[3], d(3)))
    if items[4]:
        L.append("_ev('hdrdir', %r, install(header_directory('include', "
                 "include='**/*.h')%s))" % (dirargs[4], d(4)))
    if items[5]:
        # (compressed - a generated file in the build directory - whenever
        # the case also installs the executable)
        L.append("_ev('man', %r, install(man_page('man/prog.1', "
                 "compress=%s)%s))" % (dirargs[5], bool(items[0]), d(5)))
    if items[6]:
        sub = '/'.join(['myapp'] + dirargs[6])
        L.append("_ev('data', %r, install(generic_file('data.txt'), "
                 "directory=Path(%r, InstallRoot.datadir)))" % (
                     ['myapp'] + dirargs[6], sub))
    if items[7] and not (items[2] and dirargs[2]):
        L.append("pkg_config('mypkg', version='1.0', libs=[stl])")
    if not any(items[:7]):
        L.append("default(stl)")
    return '\n'.join(L) + '\n'


def p_dirarg(events):
    """directory= argument of the installed executable (its run-time
    dependencies are placed relative to it)"""
    return [e for e in events if e['ev'] == 'Item' and
            e['kind'] == 'exe'][0]['dirarg']


def listing(root):
    out = []
    for dp, dns, fns in os.walk(root):
        for n in fns:
            out.append(os.path.relpath(os.path.join(dp, n), root).split('/'))
        for n in dns:
            p = os.path.join(dp, n)
            if os.path.islink(p):
                out.append(os.path.relpath(p, root).split('/'))
    return sorted(out)


def run_case(case):
    root = scratch('verif-c15-')
    try:
        src = os.path.join(root, 'src')
        os.makedirs(os.path.join(src, 'include', 'sub'))
        os.makedirs(os.path.join(src, 'man'))
        W = lambda n, t: open(os.path.join(src, n), 'w').write(t)
        W('dep.c', 'int dep(void){return 1;}\n')
        W('stl.c', 'int stl(void){return 2;}\n')
        W('dl.c', 'int dl(void){return 3;}\n')
        W('shl.c', 'int shl(void){return 3;}\n')
        W('dep2.c', 'int dep2(void){return 4;}\n')
        W('mid.c', 'int dep2(void);int mid(void){return dep2()+1;}\n')
        W('main.c', 'int dep(void);int stl(void);int mid(void);'
          'int main(void){return dep()+stl()+mid()-8;}\n')
        W('single.h', '#define S 1\n')
        W('include/a.h', '#define A 1\n')
        W('include/sub/b.h', '#define B 1\n')
        W('include/skip.txt', 'x\n')
        W('man/prog.1', '.TH prog 1\n')
        W('data.txt', 'd\n')
        W('build.bfg', script(case))
        cfg = case['cfg']
        # every configured directory is relocated below <scratch>/R, so that
        # a change that loses DESTDIR can never write outside the scratch
        # directory; the unset prefix is passed as its default, relocated
        rbase = os.path.join(root, 'R')
        args = [] if cfg['prefix'] else ['--prefix', rbase + '/usr/local']
        for k, flag in (('prefix', '--prefix'),
                        ('exec_prefix', '--exec-prefix'),
                        ('bindir', '--bindir'), ('libdir', '--libdir'),
                        ('includedir', '--includedir'),
                        ('datadir', '--datadir'), ('mandir', '--mandir')):
            if cfg[k]:
                args += [flag, rbase + absdir(cfg[k])]
        env = tool_env()
        bld = os.path.join(root, 'build')
        rc, out = run(['/venv/bin/bfg9000', 'configure', bld,
                       '--no-resolve-packages', '--backend=make'] + args,
                      cwd=src, env=env)
        events = [{'ev': 'Config', 'cfg': cfg, 'destdir': []}]
        if rc != 0:
            events.append({'ev': 'Install', 'exit': 100 + rc, 'tree': [],
                           'outside_changed': False, 'note': out[-400:]})
            return events
        hfiles = [['a.h'], ['sub', 'b.h']]
        used_dep = False
        for line in out.splitlines():
            if line.startswith('VERIF-INST '):
                e = json.loads(line[len('VERIF-INST '):])
                ev = {'ev': 'Item', 'kind': e['kind'], 'dirarg': e['dirarg'],
                      'ret': [{'root': r, 'comps': c} for r, c in e['ret']],
                      'files': hfiles if e['kind'] == 'hdrdir' else [],
                      'deps': []}
                # documented leaf below the kind's directory (+ directory=):
                # manN/<basename>[.gz], the basename of a source-tree file
                ev['leaf'] = {'man': ['man1', 'prog.1.gz' if case['items'][0]
                                      else 'prog.1'],
                              'header': ['single.h'],
                              'data': ['data.txt']}.get(e['kind'], [])
                if e['kind'] == 'data':
                    ev['dirarg'] = e['dirarg']
                if e['kind'] == 'exe':
                    # run-time dependency: the shared library it links
                    # run-time closure: the shared libraries it links and
                    # what those need at run time (soname link + real file
                    # of the versioned one; not its link-time name)
                    ev['deps'] = [{'root': 'libdir', 'comps':
                                   e['dirarg'] + c} for c in (
                        ['lib', 'inner', 'libdep.so'],
                        ['lib', 'libmid.so'],
                        ['lib', 'inner', 'libdep2.so.2'],
                        ['lib', 'inner', 'libdep2.so.2.0.1'])]
                if e['kind'] == 'shlib':
                    # the soname link and the real file are its run-time files
                    base = e['ret'][0][1][:-1]
                    ev['deps'] = [{'root': 'libdir', 'comps': base + [n]}
                                  for n in ('libshl.so.1', 'libshl.so.1.2.3')]
                events.append(ev)
        if case['items'][7] and not (case['items'][2] and
                                     case['dirargs'][2]):
            events.append({'ev': 'Item', 'kind': 'pc', 'dirarg': [], 'leaf': [],
                           'ret': [{'root': 'libdir', 'comps':
                                    ['pkgconfig', 'mypkg.pc']}],
                           'files': [], 'deps': [
                               {'root': 'libdir', 'comps': ['libstl.a']}]})
        rc, out = run(['make', '-j4'], cwd=bld, env=env)
        if rc != 0:
            events.append({'ev': 'Install', 'exit': 200 + rc, 'tree': [],
                           'outside_changed': False, 'note': out[-400:]})
            return events
        stage = os.path.join(root, *case['destdir'])
        srcsnap = tree_snapshot(src)
        sroot = stage + rbase
        rc, out = run(['make', 'install', 'DESTDIR=' + mkq(stage)], cwd=bld,
                      env=env)
        tree = listing(sroot) if os.path.exists(sroot) else []
        everything = listing(stage) if os.path.exists(stage) else []
        changed = tree_snapshot(src) != srcsnap or os.path.exists(rbase) or \
            len(everything) != len(tree)
        events[0]['destdir'] = []
        events.append({'ev': 'Install', 'exit': rc, 'tree': tree,
                       'outside_changed': changed,
                       'note': out[-400:] if rc else ''})
        # rpath of the installed executable
        bcomps = [c for c in rbase.split('/') if c]
        for p in tree:
            full = os.path.join(sroot, *p)
            if p[-1] == 'prog' and not os.path.islink(full):
                r = subprocess.run(['patchelf', '--print-rpath', full],
                                   capture_output=True, text=True)
                dirs = [[c for c in d.split('/') if c]
                        for d in r.stdout.strip().split(':') if d]
                dirs = [d[len(bcomps):] if d[:len(bcomps)] == bcomps else d
                        for d in dirs]
                exe_dirarg = [e for e in events if e['ev'] == 'Item' and
                              e['kind'] == 'exe'][0]['dirarg']
                events.append({'ev': 'Rpath', 'file': p, 'dirs': dirs,
                               'builddir': [c for c in bld.split('/') if c],
                               'want': [{'root': 'libdir', 'comps':
                                         exe_dirarg + ['lib', 'inner']},
                                        {'root': 'libdir', 'comps':
                                         exe_dirarg + ['lib']}]})
        # every installed shared object, also those installed only as run-time
        # dependencies: no build-directory or $ORIGIN entry; the library that
        # itself needs a project library names that library's installed place
        for p in tree:
            full = os.path.join(sroot, *p)
            if ('.so' in p[-1]) and not os.path.islink(full):
                r = subprocess.run(['patchelf', '--print-rpath', full],
                                   capture_output=True, text=True)
                dirs = [[c for c in d.split('/') if c]
                        for d in r.stdout.strip().split(':') if d]
                dirs = [d[len(bcomps):] if d[:len(bcomps)] == bcomps else d
                        for d in dirs]
                want = []
                if p[-1] == 'libmid.so':
                    want = [{'root': 'libdir', 'comps': p_dirarg(events) +
                             ['lib', 'inner']}]
                events.append({'ev': 'Rpath', 'file': p, 'dirs': dirs,
                               'builddir': [c for c in bld.split('/') if c],
                               'want': want})
        # the installed program starts with only the installed files at hand
        # (the build directory is moved away; the loader is pointed at the
        # staged library directories because DESTDIR is a staging prefix)
        for p in tree:
            full = os.path.join(sroot, *p)
            if p[-1] == 'prog' and not os.path.islink(full):
                libdirs = sorted({os.path.join(sroot, *q[:-1]) for q in tree
                                  if '.so' in q[-1]})
                os.rename(bld, bld + '.away')
                try:
                    r = subprocess.run(
                        [full], capture_output=True, text=True, cwd=root,
                        env={'LD_LIBRARY_PATH': ':'.join(libdirs)})
                finally:
                    os.rename(bld + '.away', bld)
                events.append({'ev': 'Run', 'exit': r.returncode,
                               'note': r.stderr[-300:]})
        rc, out = run(['make', 'uninstall', 'DESTDIR=' + mkq(stage)], cwd=bld,
                      env=env)
        tree2 = listing(stage) if os.path.exists(stage) else []
        tree2 = [x[len(bcomps):] if x[:len(bcomps)] == bcomps else x
                 for x in tree2]
        events.append({'ev': 'Uninstall', 'exit': rc, 'tree': tree2,
                       'note': out[-300:] if rc else ''})
        return events
    finally:
        shutil.rmtree(root, ignore_errors=True)


def main(argv):
    ck = Check('C15', argv)
    n = 30 if ck.quick else 800
    g = tlc_ok('Install_Gen', GEN % (n, ck.seed))
    ck.add_model(g, 'Install_Gen: configurations')
    cases = [p for p in g.prints if isinstance(p, dict) and 'cfg' in p]
    if len(cases) < n // 2:
        raise MachineryError('Install_Gen gave %d\n%s' % (len(cases),
                                                          g.tail()))
    res = pmap(run_case, cases, jobs=12)
    traces = [{'id': i + 1, 'events': [
        {k: v for k, v in e.items() if k != 'note'} for e in ev]}
        for i, ev in enumerate(res)]
    rej, st = validate_traces('Install_Trace', TRACE, traces, chunk=60)
    ck.traces = len(traces)
    ck.evaluations = sum(len(t['events']) for t in traces)
    ck.states += st['distinct']
    ck.transitions += st['generated']
    for tid, info in sorted(rej.items()):
        ev = res[tid - 1][info[1] - 1]
        detail = ''
        if isinstance(info[2], list) and info[2] and \
                isinstance(info[2][0], list):
            detail = '+'.join(sorted({(x[-1] if x else '')
                                      for x in info[2]}))[:60]
        ck.report('C15:%s:%s:%s' % (info[0], ev.get('kind', ev['ev']),
                                    detail),
                  '%s: %s %s\nconfig %s' % (info[0], json.dumps(info[2])[:500],
                                            ev.get('note', ''),
                                            json.dumps(cases[tid - 1])),
                  {'case': cases[tid - 1], 'events': res[tid - 1]})
    ck.sample({'case': cases[0], 'events': res[0][:4]})
    ck.assumptions += [
        'the leaf placement below a kind\'s directory is taken from the path '
        'objects install() returns; a run-time dependency is expected at '
        'libdir + its build-relative path',
        'real gcc, doppel and patchelf of the sandbox; DESTDIR staging only '
        '(the configured prefixes are never written)']
    ck.finish(rule='configurations from Install_Gen.tla: subsets of 8 '
              'installables (executable with shared+static deps, versioned '
              'shared library, static library, header, header directory with '
              'pattern, man page, data file, pkg-config), directory= '
              'arguments, 7 install-directory options with spaces, 3 DESTDIR '
              'values; non-trivial = at least one item', distinct_nontrivial=
              sum(1 for c in cases if any(c['items'])))
