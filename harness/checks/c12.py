"""C12 - path algebra.  Spec: Paths.tla (reference algebra + laws),
Paths_Trace.tla (trace validation).  Binding: TLC-generated operation
sequences are stepped through the real PosixPath/WindowsPath objects, the
projected value is recorded after every call and TLC validates the traces."""
import os
import itertools
import json
import random
import sys

from engine import Check, tlc_ok, validate_traces, MachineryError

COMPS = ['', '.', '..', 'a', 'b', 'a.b', 'a b', '..a']
ROOTS = ['srcdir', 'builddir', 'absolute', 'prefix', 'bindir', 'mandir']


def cfg(max_raw, max_ops, mode):
    c = ('CONSTANTS\n Comps = {%s}\n Roots = {%s}\n MaxRaw = %d\n MaxOps = %d\n'
         % (', '.join(json.dumps(x) for x in COMPS),
            ', '.join(json.dumps(x) for x in ROOTS), max_raw, max_ops))
    if mode == 'mc':
        c += ('SPECIFICATION Spec\nVIEW View\nINVARIANT InvNormal\n'
              'INVARIANT InvParentAppend\nINVARIANT InvRel\n'
              'CHECK_DEADLOCK FALSE\n')
    elif mode == 'gen':
        c += ('SPECIFICATION GenSpec\nINVARIANT GenHist\nCHECK_DEADLOCK FALSE\n')
    elif mode == 'trace':
        c += ('SPECIFICATION TraceSpec\nCHECK_DEADLOCK FALSE\n')
    return c


# ---------------------------------------------------------------- real code
def load_impl():
    sys.path.insert(0, os.environ.get('VERIF_REPO', '/repo'))
    from bfg9000.platforms.posix import PosixPath
    from bfg9000.platforms.windows import WindowsPath
    from bfg9000.path import Root, InstallRoot, DestDir, commonprefix, \
        uniquetrees
    roots = {'srcdir': Root.srcdir, 'builddir': Root.builddir,
             'absolute': Root.absolute, 'prefix': InstallRoot.prefix,
             'bindir': InstallRoot.bindir, 'mandir': InstallRoot.mandir}
    # install directories given relative to other install directories, as in
    # the default layout: bindir = <exec_prefix>/bin d, exec_prefix = <prefix>,
    # mandir = <datadir>/man, datadir = <prefix>/share
    variables = {Root.srcdir: '/s', Root.builddir: '/b b',
                 InstallRoot.prefix: '/usr/p', DestDir.destdir: '/d',
                 InstallRoot.exec_prefix: PosixPath('', InstallRoot.prefix),
                 InstallRoot.bindir: PosixPath('bin d',
                                               InstallRoot.exec_prefix),
                 InstallRoot.datadir: PosixPath('share', InstallRoot.prefix),
                 InstallRoot.mandir: PosixPath('man', InstallRoot.datadir)}
    return dict(posix=PosixPath, windows=WindowsPath, roots=roots,
                variables=variables, commonprefix=commonprefix,
                uniquetrees=uniquetrees)


SEPS = {'slash': lambda i: '/', 'back': lambda i: '\\',
        'mixed': lambda i: '/\\'[i % 2]}


def raw_str(raw, style):
    sep = SEPS[style]
    s = 'C:' if raw['drive'] else ''
    if raw['abs']:
        s += sep(0)
    out = []
    for i, c in enumerate(raw['comps']):
        if i:
            out.append(sep(i))
        out.append(c)
    return s + ''.join(out)


def proj(p):
    suffix = p.suffix
    drive = False
    if len(suffix) >= 2 and suffix[1] == ':':
        drive = True
        suffix = suffix[2:]
    if suffix.startswith('/'):
        suffix = suffix[1:]
    comps = suffix.split('/') if suffix else []
    return {'root': p.root.name, 'drive': drive, 'comps': comps,
            'dir': bool(p.directory), 'destdir': bool(p.destdir)}


def guarded(fn):
    try:
        return fn(), None
    except ValueError:
        return None, {'rejected': True}
    except Exception as e:     # any other exception is not a rejection
        return None, {'crashed': type(e).__name__}


def str_event(impl, p):
    import re
    v = impl['variables']
    if p.destdir and not isinstance(v.get(p.root, ''), str):
        # (a staged path below a directory that is itself given relative to
        # another one is realised by the backends through their own
        # variables, never through string(): not asked)
        v = {k: x for k, x in v.items() if k.name != 'destdir'}
    s = p.string(v)
    return {'op': 'Str', 'str': [x for x in re.split(r'[/\\]', s) if x]}


def replay(impl, flavour, style, hist):
    """Step one abstract behaviour through the real class; return events."""
    cls = impl[flavour]
    roots = impl['roots']
    cur = None
    seen = []
    events = []
    for h in hist:
        op = h['op']
        ev = dict(h)
        if op == 'New':
            val, obs = guarded(lambda: cls(
                raw_str(h['raw'], style), roots[h['root']],
                destdir=h['destdir'],
                directory=True if h['dirarg'] == 'true' else None))
        elif cur is None:
            break
        elif op == 'Parent':
            val, obs = guarded(lambda: cur.parent())
        elif op == 'Append':
            val, obs = guarded(lambda: cur.append(raw_str(h['raw'], style)))
        elif op == 'AsDirectory':
            val, obs = guarded(lambda: cur.as_directory())
        elif op == 'Reroot':
            val, obs = guarded(lambda: cur.reroot(roots[h['root']]))
        elif op == 'JsonRT':
            val, obs = guarded(lambda: cls.from_json(
                json.loads(json.dumps(cur.to_json()))))
        elif op == 'RelAppend':
            def f():
                r = ('srcdir' if cur.root.name == 'absolute'
                     else cur.root.name)
                start = cls(raw_str(h['raw'], style), roots[r],
                            destdir=h['destdir'])
                return start.append(cur.relpath(start))
            val, obs = guarded(f)
        else:
            raise MachineryError('unknown op ' + op)
        if val is not None:
            obs = proj(val)
            cur = val
        ev['obs'] = obs
        events.append(ev)
        if val is not None:
            events.append(str_event(impl, cur))
            seen.append(cur)
    if cur is not None and seen:
        others = seen[-4:-1][::-1]
        for o in others:
            events.append({'op': 'Cmp', 'other': proj(o),
                           'eq': bool(cur == o) and not bool(cur != o),
                           'hasheq': hash(cur) == hash(o)})
        # a value is always equal to a re-made copy of itself
        copy, _ = guarded(lambda: cls.from_json(cur.to_json()))
        if copy is not None:
            events.append({'op': 'Cmp', 'other': proj(copy),
                           'eq': bool(cur == copy),
                           'hasheq': hash(cur) == hash(copy)})
        for k in (0, 1, 2):
            oth = others[:k]
            val, obs = guarded(lambda: impl['commonprefix']([cur] + oth))
            if obs is None:
                obs = {'none': True} if val is None else proj(val)
            events.append({'op': 'CommonPrefix',
                           'others': [proj(o) for o in oth], 'obs': obs})
            val, obs = guarded(lambda: impl['uniquetrees']([cur] + oth))
            if val is not None:
                events.append({'op': 'UniqueTrees',
                               'others': [proj(o) for o in oth],
                               'result': [proj(v) for v in val]})
            else:
                events.append({'op': 'UniqueTrees',
                               'others': [proj(o) for o in oth],
                               'result': [obs]})
    return events


def all_raws(max_raw):
    for n in range(max_raw + 1):
        for comps in itertools.product(COMPS, repeat=n):
            if comps and comps[0] == '':
                continue
            for drive in (False, True):
                for ab in (False, True):
                    yield {'drive': drive, 'abs': ab, 'comps': list(comps)}


def generated(raw, root, dd, da):
    """inputs whose rejection is discretionary are not generated"""
    if raw['drive'] and not raw['abs']:
        return False
    if not raw['abs'] and root == 'absolute':
        return False
    if dd and root in ('srcdir', 'builddir'):
        return False
    return True


def hist_ok(hist):
    h = hist[0]
    if not generated(h['raw'], h['root'], h['destdir'], h['dirarg']):
        return False
    for e in hist:
        if 'raw' in e:
            if e['raw']['drive'] and not e['raw']['abs']:
                return False
            if e['raw']['comps'] and e['raw']['comps'][0] == '':
                return False     # "//x": implementation-defined in POSIX
    return True


def main(argv):
    ck = Check('C12', argv)
    impl = load_impl()
    rnd = random.Random(ck.seed)

    # 1. the laws hold on the reference algebra (exhaustive, small constants)
    mr, mo = (2, 2) if ck.quick else (3, 1)
    r = tlc_ok('Paths', cfg(mr, mo, 'mc'), timeout=3000)
    if r.invariant_violated:
        ck.machinery('law violated on the reference model:\n' + r.tail(40))
    ck.add_model(r, 'Paths laws MaxRaw=%d MaxOps=%d' % (mr, mo))

    # 2. behaviours: (a) every constructor call up to a bound (pure product,
    #    enumerated here and cross-checked against TLC's count of initial
    #    states), (b) TLC -simulate operation sequences.
    hists = []
    nraw = 3 if ck.quick else 4
    for raw in all_raws(nraw):
        for root in ROOTS:
            for dd in (False, True):
                for da in ('none', 'true'):
                    if generated(raw, root, dd, da):
                        hists.append([{'op': 'New', 'raw': raw, 'root': root,
                                       'destdir': dd, 'dirarg': da}])
    n_new = len(hists)
    nsim, depth = (4000, 5) if ck.quick else (20000, 7)
    g = tlc_ok('Paths_Gen', cfg(3, depth, 'gen'), workers=1,
               simulate='num=%d' % nsim, depth=depth + 1, seed=ck.seed,
               timeout=3000)
    sim = [p for p in g.prints if isinstance(p, list) and p and
           isinstance(p[0], dict)]
    if len(sim) < nsim // 2:
        raise MachineryError('simulation produced %d behaviours\n%s' %
                             (len(sim), g.tail()))
    sim = [h for h in sim if hist_ok(h)]
    hists += sim
    # (c) directed: every ordered triple of a few related locations (names
    #     that are string prefixes of each other, with characters that sort
    #     before and after the separator) - commonprefix / uniquetrees of
    #     three paths are evaluated at the end of each history
    rel = [['a'], ['a.b'], ['a b'], ['a', 'b'], ['a.b', 'b'], ['a', 'a.b'],
           ['b'], ['a', 'b', 'a'], ['a b', 'a']]
    n_tri0 = len(hists)
    for x in rel:
        for y in rel:
            for z in rel:
                hists.append([{'op': 'New', 'root': 'srcdir', 'destdir': False,
                               'dirarg': 'none', 'raw': {
                                   'drive': False, 'abs': False, 'comps': c}}
                              for c in (x, y, z)])

    # 3. replay into the real classes, all separator styles, both flavours
    traces = []
    meta = {}
    tid = 0
    for hi, hist in enumerate(hists):
        variants = [(f, s) for f in ('posix', 'windows')
                    for s in ('slash', 'back', 'mixed')]
        if hi < n_new and len(hist[0]['raw']['comps']) >= 3:
            variants = [variants[rnd.randrange(6)], variants[rnd.randrange(6)]]
        if hi >= n_tri0:
            variants = [('posix', 'slash'), ('windows', 'back')]
        for flavour, style in variants:
            tid += 1
            events = replay(impl, flavour, style, hist)
            traces.append({'id': tid, 'events': events})
            meta[tid] = (flavour, style, hi)
    ck.evaluations = sum(len(t['events']) for t in traces)

    # 4. TLC validates every recorded execution
    rej, st = validate_traces('Paths_Trace', cfg(3, 1, 'trace'), traces,
                              chunk=30000)
    ck.traces = len(traces)
    ck.states += st['distinct']
    ck.transitions += st['generated']
    for tid_, info in sorted(rej.items()):
        flavour, style, hi = meta[tid_]
        clause, line, op, expected = info[0], info[1], info[2], info[3]
        tr = traces[tid_ - 1]
        ev = tr['events'][line - 1]
        key = key_of(clause, ev, tr['events'][:line], expected)
        ck.report(key, '%s: %s on %s/%s expected %s observed %s' % (
            clause, op, flavour, style, json.dumps(expected),
            json.dumps(ev.get('obs', ev))),
            {'flavour': flavour, 'style': style, 'hist': hists[hi],
             'events': tr['events'][:line], 'expected': expected})
    for tr in traces[:2] + traces[-2:]:
        ck.sample({'flavour': meta[tr['id']][0], 'style': meta[tr['id']][1],
                   'events': tr['events']})
    nontrivial = len({json.dumps(h, sort_keys=True) for h in hists
                      if len(h) > 1 or any(c in ('', '.', '..') for c in
                                           h[0]['raw']['comps'])})
    ck.note('behaviours', {'constructor_calls': n_new,
                           'simulated_sequences': len(sim),
                           'sim_depth': depth})
    ck.assumptions += [
        'raw strings are abstracted to (drive, leading separator, components);'
        ' a leading empty component ("//x") and "~" are not generated',
        'inputs whose rejection is discretionary (relative path with a drive,'
        ' relative path under the absolute root, destdir with a source/build'
        ' root, directory=False) are not generated']
    ck.finish(rule='behaviours = all constructor calls over raws of <=%d '
              'components x roots x destdir x directory (exhaustive) plus '
              'TLC -simulate operation sequences; non-trivial = more than one '
              'operation or a special component; distinct by abstract '
              'history' % nraw, distinct_nontrivial=nontrivial)


def key_of(clause, ev, prefix, expected=None):
    """normalised identification of a failing call for known_findings"""
    op = ev['op']
    cur = None
    for e in prefix[:-1]:
        if 'obs' in e and 'comps' in e.get('obs', {}):
            cur = e['obs']
    feat = []
    obs = ev.get('obs')
    if op == 'CommonPrefix':
        ps = [cur] + ev['others']
        if cur['root'] == 'absolute':
            feat.append('absolute')
        if expected == []:
            feat.append('lcp-empty')
        if all(not x['comps'] for x in ps):
            feat.append('all-rootdir')
    elif op == 'UniqueTrees':
        ps = [cur] + ev['others']
        if len({x['root'] for x in ps}) > 1:
            feat.append('mixed-roots')
        if any(x['root'] == 'absolute' and not x['comps'] for x in ps):
            feat.append('abs-rootdir')
    elif cur is not None and cur['drive'] and isinstance(expected, dict) \
            and 'comps' in expected:
        feat.append('drive-op')
    if isinstance(obs, dict) and obs.get('rejected'):
        feat.append('raises')
    if isinstance(obs, dict) and obs.get('crashed'):
        feat.append('crashes')
    return 'C12:%s:%s:%s' % (clause, op, '+'.join(feat))
