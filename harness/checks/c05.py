"""C05 - implicitly named outputs never collide and stay in the build dir.
Spec: ObjNames.tla (contract + design model of within_directory),
ObjNames_Trace.tla.  Binding: TLC generates projects (-simulate), the real
`bfg9000 configure` (and, for a subset, make / make clean) runs on them, and
TLC validates the recorded outcome of every run against the contract."""
import json
import os
import shutil

from engine import (Check, tlc, tlc_ok, validate_traces, scratch, bfg_configure,
                    pmap, run, tool_env, tree_snapshot, MachineryError)

NAMES = ['a', 'ab', 'cd', 'a.b', 'sub', 'deep']
TDIRS = [[], ['ab'], ['a', 'ab'], ['cd', 'sub'], ['deep', 'a']]
STEMS = ['x', 'ab', 'cd', 'x.y']
EXTS = ['c', 'cpp']
SUBDIRS = ['sub', 'deep', 'er']
TDEFS = 'TDirsDef == {' + ', '.join('<<' + ', '.join('"%s"' % c for c in t) + '>>' for t in TDIRS) + '}'



# names with characters the build-file writers escape (blank, '#', '$'): only
# in the generated cases (the exhaustive design check keeps the small sets)
XNAMES = NAMES + ['a b', 'c#d', 'sub2', 'deep2', '2']
XSTEMS = STEMS + ['my mod', 'x$y', 't#1']


def cfg(mode, maxdepth=2, maxdirs=2, bug=False):
    c = ('CONSTANTS\n Names = {%s}\n Stems = {%s}\n Exts = {%s}\n'
         ' MaxDepth = %d\n MaxDirs = %d\n DotsUnescaped = %s\n'
         ' TDirs <- TDirsDef\n' % (
             ', '.join(json.dumps(x) for x in (NAMES if mode == 'mc'
                                               else XNAMES)),
             ', '.join(json.dumps(x) for x in (STEMS if mode == 'mc'
                                               else XSTEMS)),
             ', '.join(json.dumps(x) for x in EXTS), maxdepth, maxdirs,
             'TRUE' if bug else 'FALSE'))
    if mode == 'mc':
        c += ('SPECIFICATION Spec\nINVARIANT InvInjective\nINVARIANT InvClash'
              '\nINVARIANT InvContained\nCHECK_DEADLOCK FALSE\n')
    elif mode == 'gen':
        c += 'SPECIFICATION GenSpec\nCHECK_DEADLOCK FALSE\n'
    else:
        c += 'SPECIFICATION TraceSpec\nCHECK_DEADLOCK FALSE\n'
    return c


def loc(d, s):
    return SUBDIRS[:d - s['up']] + list(s['dirs'])


GEN_EXT = {'qtmoc': 'hpp', 'lex': 'l', 'yacc': 'y', 'qrc': 'qrc', 'qtui': 'ui'}


def fname(s, kind=''):
    if kind.startswith('gen_'):
        # the input of a source generator: the (stem, extension) pair of the
        # abstract source stays visible in the file's name
        return s['stem'] + ('' if s['ext'] == 'c' else '.cpp') + '.' + \
            GEN_EXT[kind[4:]]
    return s['stem'] + '.' + s['ext']


def ref(s, kind=''):
    return '/'.join(['..'] * s['up'] + list(s['dirs']) + [fname(s, kind)])


def make_project(root, case):
    d = case['d']
    src = os.path.join(root, 'src')
    for i in range(d + 1):
        sd = os.path.join(src, *SUBDIRS[:i])
        os.makedirs(sd, exist_ok=True)
        with open(os.path.join(sd, 'build.bfg'), 'w') as f:
            if i == 0:
                f.write("project('p', intermediate_dirs=%r)\n" %
                        bool(case['intdirs']))
            if i < d:
                f.write("submodule(%r)\n" % SUBDIRS[i])
            else:
                kind = case['kind']
                refs = [ref(s, kind) for s in case['sources']]
                if kind.startswith('gen_'):
                    f.write("r = generated_sources(%r, lang=%r)\n" % (
                        refs, kind[4:]))
                    f.write("r = [x[0] if isinstance(x, list) else x "
                            "for x in r]\n")
                    f.write("print('VERIF-OUT', repr([[x.path.root.name, "
                            "x.path.suffix] for x in r]))\n")
                elif kind == 'copy':
                    f.write("r = copy_files(%r, directory='cp')\n" % refs)
                    f.write("print('VERIF-OUT', repr([[x.path.root.name, "
                            "x.path.suffix] for x in r]))\n")
                elif kind == 'object_files':
                    f.write("r = object_files(%r)\n" % refs)
                else:
                    f.write("%s(%r, %r)\n" % (
                        kind, '/'.join(case.get('tdirs', []) + ['prog']),
                        refs + (['zz_main.c'] if kind == 'executable'
                                else [])))
                with open(os.path.join(sd, 'zz_main.c'), 'w') as g:
                    g.write('int main(void){return 0;}\n')
    for k, s in enumerate(case['sources']):
        p = os.path.join(src, *loc(d, s))
        os.makedirs(p, exist_ok=True)
        with open(os.path.join(p, fname(s, case['kind'])), 'w') as g:
            g.write('int f_%s_%d(void){return %d;}\n' % (
                ''.join(c for c in s['stem'] if c.isalnum()), k, k))
    return src


def run_case(arg):
    case, do_build = arg
    root = scratch('verif-c05-')
    try:
        src = make_project(root, case)
        bld = os.path.join(root, 'build')
        before = tree_snapshot(src)
        rc, out = bfg_configure(src, bld)
        outs = []
        notes = {}
        if rc == 0:
            if case['kind'] == 'copy' or case['kind'].startswith('gen_'):
                for line in out.splitlines():
                    if line.startswith('VERIF-OUT'):
                        lst = eval(line[len('VERIF-OUT '):])
                        for i, (rootname, suffix) in enumerate(lst):
                            outs.append({'i': i + 1,
                                         'abs': rootname != 'builddir' or
                                         suffix.startswith('/'),
                                         'comps': suffix.split('/')})
            else:
                cdb = json.load(open(os.path.join(bld,
                                                  'compile_commands.json')))
                for ent in cdb:
                    f = os.path.relpath(ent['file'], src)
                    for i, s in enumerate(case['sources']):
                        want = '/'.join(loc(case['d'], s) +
                                        [s['stem'] + '.' + s['ext']])
                        if f == want:
                            o = ent['output']
                            outs.append({'i': i + 1, 'abs': o.startswith('/'),
                                         'comps': os.path.normpath(o)
                                         .split('/')})
            if do_build:
                env = tool_env()
                brc, bout = run(['make', '-C', bld, '-j4'], env=env)
                notes['build_exit'] = brc
                crc, _ = run(['make', '-C', bld, 'clean'], env=env)
                notes['clean_exit'] = crc
        after = tree_snapshot(src)
        ev = dict(case)
        ev.update(exit=rc, outs=outs, srcdir_unchanged=(before == after))
        ev.update(notes)
        return ev, out[-400:]
    finally:
        shutil.rmtree(root, ignore_errors=True)


# ---------------------------------------------------------------- lifecycle
LIFE_GEN = ('CONSTANTS MaxSteps = %d NSeeds = %d SeedBase = %d\n'
            'SPECIFICATION GenSpec\nINVARIANT Emit\nCHECK_DEADLOCK FALSE\n')
LIFE_TRACE = ('CONSTANT MaxSteps = 1000\nSPECIFICATION TraceSpec\n'
              'CHECK_DEADLOCK FALSE\n')


def soak(hist):
    """one walk of Lifecycle.tla on a real project with the real toolchain"""
    import regen
    import subprocess
    files = {
        'build.bfg': "project('p', version='1.0')\n"
                     "lib = static_library('util/lib/u', ['util/u.c'])\n"
                     "exe = executable('bin/prog', ['main.c', 'sub/x.c'] + "
                     "find_files('gen/*.c'), libs=[lib])\n"
                     "copy_file('data.txt')\n"
                     "install(exe)\n",
        'main.c': '#include <stdio.h>\nint u(void);int x(void);\n'
                  'int main(void){printf("%d\\n", u()+x());return 0;}\n',
        'util/u.c': 'int u(void){return 1;}\n',
        'sub/x.c': 'int x(void){return 2;}\n',
        'gen/g0.c': 'int g0(void){return 0;}\n',
        'data.txt': 'd\n'}
    p = regen.Proj(files)
    # (the install prefix lies inside the scratch directory: nothing can be
    # written outside it even if DESTDIR were lost)
    p.args += ['--prefix', os.path.join(p.root, 'pfx')]
    try:
        log = os.path.join(p.root, 'tools.log')
        for tool, real in (('cclog', 'gcc'), ('arlog', 'ar')):
            w = os.path.join(p.root, tool)
            with open(w, 'w') as f:
                f.write('#!/bin/sh\ncase " $* " in *" -c "*|*" cr "*) '
                        'echo %s >> %s;; esac\nexec %s "$@"\n' % (tool, log,
                                                                 real))
            os.chmod(w, 0o755)
        p.env['CC'] = os.path.join(p.root, 'cclog')
        p.env['AR'] = os.path.join(p.root, 'arlog')
        p.env.pop('CXX', None)
        stage = os.path.join(p.root, 'stage dir')
        events = []
        srcsnap = None
        nsrc = 0

        def outside():
            return sorted(set(os.listdir(p.root)) - {
                'src', 'build', 'stage dir', 'cclog', 'arlog', 'tools.log',
                'moved build'}) != []

        def staged():
            n = 0
            for dp, dns, fns in os.walk(stage):
                n += len(fns)
            return n

        def prog_ok(bld):
            exe = os.path.join(bld, 'bin', 'prog')
            if not os.path.exists(exe):
                return False
            r = subprocess.run([exe], capture_output=True, text=True,
                               env={'PATH': '/usr/bin:/bin'})
            return r.returncode == 0 and r.stdout.strip() == '3'
        for act in hist:
            ev = {'act': act, 'exit': 0, 'src_changed': False,
                  'outside': False, 'ran': 0, 'products_ok': True,
                  'staged': 0}
            if os.path.exists(log):
                os.remove(log)
            user_edit = False
            if act == 'configure':
                rc, out = p.configure()
                srcsnap = tree_snapshot(p.src)
            elif act == 'edit_source':
                p.tick()
                os.utime(os.path.join(p.src, 'main.c'))
                rc, out, user_edit = 0, '', True
            elif act == 'edit_script':
                p.tick()
                nsrc += 1
                with open(os.path.join(p.src, 'build.bfg'), 'a') as f:
                    f.write("command('c%d', cmd=['true'])\n" % nsrc)
                rc, out, user_edit = 0, '', True
            elif act == 'add_source':
                p.tick()
                nsrc += 1
                regen.write(os.path.join(p.src, 'gen', 'n%d.c' % nsrc),
                            'int n%d(void){return 0;}\n' % nsrc)
                rc, out, user_edit = 0, '', True
            elif act == 'build':
                p.tick()
                rc, out = p.tool()
                ev['products_ok'] = prog_ok(p.bld)
            elif act == 'regenerate':
                rc, out = run(['/venv/bin/bfg9000', 'regenerate', p.bld],
                              cwd=p.root, env=p.env)
            elif act == 'clean':
                rc, out = p.tool(['clean'])
            elif act == 'dist':
                rc, out = p.tool(['dist'])
            elif act == 'install':
                p.tick()
                rc, out = p.tool(['install', 'DESTDIR=' + stage])
                ev['products_ok'] = prog_ok(p.bld)
                ev['staged'] = staged()
            elif act == 'uninstall':
                rc, out = p.tool(['uninstall', 'DESTDIR=' + stage])
                ev['staged'] = staged()
            elif act == 'move_builddir':
                moved = os.path.join(p.root, 'moved build')
                os.rename(p.bld, moved)
                ev['products_ok'] = prog_ok(moved)
                os.rename(moved, p.bld)
                rc, out = 0, ''
            ev['exit'] = rc
            if os.path.exists(log):
                ev['ran'] = len(open(log).read().split())
            if user_edit:
                srcsnap = tree_snapshot(p.src)
            elif srcsnap is not None:
                ev['src_changed'] = tree_snapshot(p.src) != srcsnap
            ev['outside'] = outside()
            ev['note'] = out[-300:] if rc else ''
            events.append(ev)
        return events
    finally:
        p.close()


def lifecycle(ck):
    n, steps = (16, 9) if ck.quick else (400, 14)
    g = tlc_ok('Lifecycle_Gen', LIFE_GEN % (steps, n, ck.seed))
    ck.add_model(g, 'Lifecycle_Gen: %d walks of %d steps' % (n, steps))
    walks = [p for p in g.prints if isinstance(p, list) and p and
             isinstance(p[0], str)]
    if len(walks) < n // 2:
        raise MachineryError('Lifecycle_Gen gave %d walks\n%s' % (len(walks),
                                                                  g.tail()))
    res = pmap(soak, walks, jobs=12)
    traces = [{'id': i + 1, 'events': [
        {k: v for k, v in e.items() if k != 'note'} for e in ev]}
        for i, ev in enumerate(res)]
    rej, st = validate_traces('Lifecycle_Trace', LIFE_TRACE, traces, chunk=50)
    ck.traces += len(traces)
    ck.states += st['distinct']
    ck.transitions += st['generated']
    for tid, info in sorted(rej.items()):
        ev = res[tid - 1][info[1] - 1]
        prev = [e['act'] for e in res[tid - 1][:info[1] - 1]][-2:]
        ck.report('C05:lifecycle:%s:%s:after=%s' % (info[0], ev['act'],
                                                    '+'.join(prev)),
                  '%s at %s after %s: %s' % (info[0], ev['act'], prev,
                                             json.dumps(ev)[:400]),
                  {'walk': walks[tid - 1], 'events': res[tid - 1][:info[1]]})
    ck.note('lifecycle_walks', len(walks))
    ck.sample({'lifecycle_walk': walks[0]})


TWICE = {
    'executable': "executable('same', ['a.c'])\nexecutable('same', ['b.c'])",
    'static_library': "static_library('same', ['a.c'])\n"
                      "static_library('same', ['b.c'])",
    'object_file': "object_file('same', 'a.c')\nobject_file('same', 'b.c')",
    'copy_file': "copy_file('same.txt', 'a.c')\ncopy_file('same.txt', 'b.c')",
    'build_step': "build_step('same.txt', cmd=['true'])\n"
                  "build_step('same.txt', cmd=['false'])",
    'step-and-copy': "build_step('same.txt', cmd=['true'])\n"
                     "copy_file('same.txt', 'a.c')",
    'precompiled_header': "precompiled_header('same.h', 'h1.h')\n"
                          "precompiled_header('same.h', 'h2.h')",
    'pch-of-two-targets': "executable('p1', ['a.c'], pch='h1.h')\n"
                          "executable('p2', ['b.c'], pch='h1.h', "
                          "compile_options=['-DX'])",
    'generated-source-and-object': "object_file('same', 'a.c')\n"
                                   "copy_file('same.o', 'b.c')",
    # one of SEVERAL outputs of a step named again (first, middle, last)
    'multi-first-and-copy': "build_step(['same.txt', 'o2.txt'], "
                            "cmd=['true'])\ncopy_file('same.txt', 'a.c')",
    'multi-last-and-copy': "build_step(['o1.txt', 'same.txt'], "
                           "cmd=['true'])\ncopy_file('same.txt', 'a.c')",
    'two-multi-middle': "build_step(['x1.txt', 'same.txt', 'y1.txt'], "
                        "cmd=['true'])\nbuild_step(['x2.txt', 'same.txt', "
                        "'y2.txt'], cmd=['false'])",
    'copy-then-multi': "copy_file('same.txt', 'a.c')\nbuild_step("
                       "['same.txt', 'z.txt'], cmd=['true'])",
    'in-submodule': "submodule('sub')",
}


def twice_case(arg):
    what, backend = arg
    root = scratch('verif-c05t-')
    try:
        src = os.path.join(root, 'src')
        os.makedirs(os.path.join(src, 'sub'))
        for n in ('a.c', 'b.c', 'sub/a.c', 'sub/b.c'):
            open(os.path.join(src, n), 'w').write('int x;\n')
        for n in ('h1.h', 'h2.h'):
            open(os.path.join(src, n), 'w').write('#define H 1\n')
        open(os.path.join(src, 'sub', 'build.bfg'), 'w').write(
            TWICE['precompiled_header'].replace("'h1.h'", "'../h1.h'")
            .replace("'h2.h'", "'../h2.h'") + '\n')
        open(os.path.join(src, 'build.bfg'), 'w').write(
            "project('p')\n" + TWICE[what] + '\n')
        rc, out = bfg_configure(src, os.path.join(root, 'build'),
                                backend=backend)
        return {'ev': 'twice', 'what': what + '/' + backend, 'exit': rc}
    finally:
        shutil.rmtree(root, ignore_errors=True)


def main(argv):
    ck = Check('C05', argv)
    # 1. design model: injective, clash exactly on extension-only difference
    md = (2, 1) if ck.quick else (2, 2)
    r = tlc_ok('ObjNames', cfg('mc', *md), defs=TDEFS)
    if r.invariant_violated:
        ck.machinery('design model violates the contract:\n' + r.tail(40))
    ck.add_model(r, 'ObjNames design model depth<=%d dirs<=%d' % md)
    # the pre-fix pattern, kept as a vacuity guard: TLC must find the collision
    rb = tlc('ObjNames', cfg('mc', 1, 1, bug=True), defs=TDEFS)
    if not rb.invariant_violated:
        ck.machinery('vacuity guard: unescaped-dots model shows no collision')

    # 2. cases from TLC
    n = 700 if ck.quick else 12000
    g = tlc_ok('ObjNames_Gen', cfg('gen'), defs=TDEFS, workers=1,
               simulate='num=%d' % n,
               depth=3, seed=ck.seed)
    cases, seen = [], set()
    for p in g.prints:
        if isinstance(p, dict) and 'sources' in p:
            k = json.dumps(p, sort_keys=True)
            if k not in seen:
                seen.add(k)
                cases.append(p)
    if len(cases) < n // 3:
        raise MachineryError('generator gave %d cases\n%s' % (len(cases),
                                                              g.tail()))
    # directed: a reference out of the script's directory into a sibling whose
    # name continues the directory's own name (sub -> ../sub2), next to a
    # source inside the directory whose path is the remainder (2/...)
    for d_, sib in ((1, 'sub2'), (2, 'deep2')):
        for kind in ('executable', 'static_library', 'copy'):
            for intd in (True, False):
                cases.append({'d': d_, 'intdirs': intd, 'kind': kind,
                              'tdirs': [], 'sources': [
                                  {'up': 1, 'dirs': [sib], 'stem': 'x',
                                   'ext': 'c'},
                                  {'up': 0, 'dirs': ['2'], 'stem': 'x',
                                   'ext': 'c'},
                                  {'up': 0, 'dirs': [], 'stem': 'x',
                                   'ext': 'c'}]})
    # the same source sets as inputs of the source generators (moc, lex,
    # yacc, rcc, uic): generated sources are implicitly named outputs too
    gens = [c for c in cases if c['kind'] == 'copy']
    for i, c in enumerate(gens):
        cases.append(dict(c, kind='gen_' + sorted(GEN_EXT)[i % len(GEN_EXT)]))
    nbuild = 60 if ck.quick else 600
    res = pmap(run_case, [(c, i < nbuild and c['kind'] != 'object_files' and
                           not c['kind'].startswith('gen_'))
                          for i, c in enumerate(cases)])
    traces = []
    for i, (ev, out) in enumerate(res):
        traces.append({'id': i + 1, 'events': [ev]})
    # one output path named by two steps of any kind: configuration fails
    tw = pmap(twice_case, [(w, b) for w in sorted(TWICE)
                           for b in ('make', 'ninja')])
    ntw0 = len(traces)
    for ev in tw:
        traces.append({'id': len(traces) + 1, 'events': [ev]})
    ck.evaluations = len(traces)
    rej, st = validate_traces('ObjNames_Trace', cfg('trace'), traces,
                              defs=TDEFS,
                              chunk=2000)
    ck.traces = len(traces)
    ck.states += st['distinct']
    ck.transitions += st['generated']
    for tid, info in sorted(rej.items()):
        if tid > ntw0:
            ev = tw[tid - ntw0 - 1]
            ck.report('C05:%s:%s' % (info[0], ev['what']),
                      '%s: two steps naming one output configure with exit %d'
                      % (ev['what'], ev['exit']), ev)
            continue
        ev, out = res[tid - 1]
        clause = info[0]
        key = 'C05:%s:%s:%s' % (clause, ev['kind'],
                                'intdirs' if ev['intdirs'] else 'flat')
        ck.report(key, '%s: %s' % (clause, json.dumps(
            {'refs': [ref(s, ev['kind']) for s in ev['sources']], 'depth': ev['d'],
             'exit': ev['exit'], 'outs': ev['outs'], 'tail': out[-200:]})),
            {'case': cases[tid - 1], 'event': ev, 'output': out})
    bad_build = [ev for ev, _ in res if ev.get('build_exit', 0) != 0 or
                 ev.get('clean_exit', 0) != 0]
    ck.note('built_and_cleaned', sum(1 for ev, _ in res if 'build_exit' in ev))
    ck.note('build_failures', len(bad_build))
    for ev in bad_build[:5]:
        ck.report('C05:BuildOrCleanFails:%s' % ev['kind'],
                  'build/clean failed: ' + json.dumps(
                      [ref(s) for s in ev['sources']]), ev)
    for ev, _ in res[:3]:
        ck.sample(ev)
    lifecycle(ck)
    nontriv = sum(1 for c in cases if len({json.dumps(s, sort_keys=True)
                                           for s in c['sources']}) > 1)
    ck.assumptions += ['component names: %s; stems: %s; extensions: %s; '
                       'literal PAR excluded' % (XNAMES, XSTEMS, EXTS)]
    ck.finish(rule='cases = TLC -simulate walks of ObjNames_Gen (2-3 sources '
              'that are neighbours of each other, submodule depth 0..2, 5 '
              'target kinds, intermediate_dirs on/off); non-trivial = at '
              'least two different sources; distinct by abstract case',
              distinct_nontrivial=nontriv)
