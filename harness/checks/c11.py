"""C11 - find_files returns exactly what the documented glob semantics select.
Specs: Glob.tla (reference semantics + design model of glob.py), Glob_MC.tla
(exhaustive design-vs-reference check), Glob_Gen.tla (case generation),
Glob_Trace.tla (the reference decides every recorded real call)."""
import json
import os
import shutil

from engine import (Check, tlc_ok, validate_traces, scratch, bfg_configure,
                    pmap, unsyms, MachineryError)

MC = ('CONSTANTS MaxDepth = %d MaxPat = %d\nSPECIFICATION Spec\n'
      'INVARIANT Agree\nCHECK_DEADLOCK FALSE\n')
GEN = ('CONSTANTS NSeeds = %d SeedBase = %d\nSPECIFICATION GenSpec\n'
       'CHECK_DEADLOCK FALSE\n')
TRACE = 'SPECIFICATION TraceSpec\nCHECK_DEADLOCK FALSE\n'


def item_str(it):
    k = it['k']
    if k == 'lit':
        return unsyms([it['c']])
    if k == 'star':
        return '*'
    if k == 'any':
        return '?'
    return '[' + ('!' if it['neg'] else '') + unsyms(it['set']) + ']'


def comp_str(c):
    if c['k'] == 'ss':
        return '**'
    return ''.join(item_str(i) for i in c['items'])


def pat_str(p):
    return '/'.join(comp_str(c) for c in p['comps']) + \
        ('/' if p['dirpat'] else '')


def ng_str(g):
    return ''.join(item_str(i) for i in g['items']) + \
        ('/' if g['dirpat'] else '')


def entry_of(path_str, isdir):
    comps = [c for c in path_str.split('/') if c not in ('', '.')]
    return {'path': [list(map(lambda ch: 'TAB' if ch == '\t' else ch, c))
                     for c in comps], 'dir': bool(isdir)}


SCRIPT = r'''
project('p')
import json as _json
def _proj(ps):
    return [[p.suffix, bool(p.directory)] for p in ps]
_kw = %(kw)r
%(pre)s
_a = find_paths(%(pats)r, **_kw)
_b = find_paths(%(pats)r, **_kw)
_c = %(third)s
print('VERIF-FIND ' + _json.dumps([_proj(_a), _proj(_b), _proj(_c)]))
'''


def run_case(case):
    root = scratch('verif-c11-')
    try:
        src = os.path.join(root, 'src')
        os.makedirs(src)
        tree = sorted(case['tree'], key=lambda e: len(e['path']))
        # every second leaf directory of the tree is a symbolic link to a
        # populated directory outside the source tree: find_files lists it as
        # a directory and does not descend into it, so for the model it is an
        # empty directory
        outside = os.path.join(root, 'outside')
        os.makedirs(os.path.join(outside, 'sub'))
        for n in ('in.c', 'a', 'b.c', 'a.h', 'sub/x.c'):
            open(os.path.join(outside, n), 'w').close()
        def key(path):
            return tuple(tuple(n) if isinstance(n, list) else n for n in path)
        allp = [key(e['path']) for e in tree]
        leafdirs = sorted(key(e['path']) for e in tree if e['dir'] and
                          e['path'] and not any(
                              q[:len(e['path'])] == key(e['path']) and
                              len(q) > len(e['path']) for q in allp))
        links = set(leafdirs[::2])
        for e in tree:
            p = os.path.join(src, *[unsyms(n) for n in e['path']])
            if e['dir'] and key(e['path']) in links:
                os.makedirs(os.path.dirname(p), exist_ok=True)
                os.symlink(outside, p)
            elif e['dir']:
                os.makedirs(p, exist_ok=True)
            else:
                os.makedirs(os.path.dirname(p), exist_ok=True)
                open(p, 'w').close()
        f = case['filter']
        # in every third case the literal base directory of each pattern is
        # itself a symbolic link to a real directory elsewhere (searching
        # starts THROUGH it; only links met while descending are not followed)
        if case.get('linkbase'):
            def base_of(pat):
                base = []
                for c in pat['comps']:
                    if c['k'] == 'c' and all(i['k'] == 'lit'
                                             for i in c['items']):
                        base.append(unsyms([i['c'] for i in c['items']]))
                    else:
                        break
                return base
            bases = [base_of(pat) for pat in f['include']]
            for n_, base in enumerate(bases):
                # (left open: a linked base that lies below the base of
                # another pattern of the same call is reached by descending,
                # and links met while descending are not followed)
                if not base or any(o != base and o == base[:len(o)]
                                   for o in bases):
                    continue
                bp = os.path.join(src, *base)
                if os.path.isdir(bp) and not os.path.islink(bp):
                    real = os.path.join(root, 'relocated%d' % n_)
                    os.rename(bp, real)
                    os.symlink(real, bp)
        kw = {}
        if f['type'] != 'none':
            kw['type'] = f['type']
        if f['extra']:
            kw['extra'] = [ng_str(g) for g in f['extra']]
        if f['exclude']:
            kw['exclude'] = [ng_str(g) for g in f['exclude']]
        pats = [pat_str(p) for p in f['include']]
        with open(os.path.join(src, 'build.bfg'), 'w') as o:
            # in every second case the same filter is first used with
            # dist=False: the later ordinary calls still distribute
            # everything they find (and the cache must not remember less)
            pre = '_z = find_paths(%r, dist=False, **_kw)' % (pats,) \
                if case.get('predist') else ''
            # (then without the uncached third call, which would register
            # everything again by itself)
            third = '_b' if case.get('predist') else \
                'find_paths(%r, cache=False, **_kw)' % (pats,)
            o.write(SCRIPT % {'kw': kw, 'pats': pats, 'pre': pre,
                              'third': third})
        bld = os.path.join(root, 'build')
        rc, out = bfg_configure(src, bld)
        ev = {'tree': case['tree'] + [entry_of('build.bfg', False)],
              'filter': f, 'exit': rc, 'found': [],
              'found2': [], 'found_nocache': [], 'dist': [],
              'other_dist': [entry_of('build.bfg', False)]}
        if rc == 0:
            for line in out.splitlines():
                if line.startswith('VERIF-FIND '):
                    a, b, c = json.loads(line[len('VERIF-FIND '):])
                    ev['found'] = [entry_of(s, d) for s, d in a]
                    ev['found2'] = [entry_of(s, d) for s, d in b]
                    ev['found_nocache'] = [entry_of(s, d) for s, d in c]
            # the distribution list: the dist-gzip recipe of the Makefile
            mk = open(os.path.join(bld, 'Makefile')).read()
            import shlex
            for line in mk.splitlines():
                if '-f gzip' in line and '$(DOPPEL)' in line:
                    words = shlex.split(line.strip().replace('$$', '$'))
                    i = words.index('p')      # -P p <files...> <archive>
                    for w in words[i + 1:-1]:
                        ev['dist'].append(entry_of(w, os.path.isdir(
                            os.path.join(src, w))))
        ev['note'] = out[-300:] if rc else ''
        ev['pats'] = pats
        ev['kw'] = kw
        return ev
    finally:
        shutil.rmtree(root, ignore_errors=True)


def main(argv):
    ck = Check('C11', argv)
    # 1. design model of glob.py == documented semantics (exhaustive, small)
    md, mp = (2, 2) if ck.quick else (2, 3)
    r = tlc_ok('Glob_MC', MC % (md, mp), timeout=1500)
    if r.invariant_violated:
        ck.report('C11:design:Agree', 'design model of glob.py disagrees '
                  'with the documented semantics:\n' + r.tail(40))
    ck.add_model(r, 'Glob design vs reference, depth<=%d pattern<=%d' %
                 (md, mp))
    # 2. cases from TLC, executed by the real find_paths
    n = 900 if ck.quick else 20000
    g = tlc_ok('Glob_Gen', GEN % (n, ck.seed), timeout=1500)
    cases, seen = [], set()
    for p in g.prints:
        if isinstance(p, dict) and 'tree' in p:
            k = json.dumps(p, sort_keys=True)
            if k not in seen:
                seen.add(k)
                cases.append(p)
    if len(cases) < n // 2:
        raise MachineryError('Glob_Gen gave %d cases\n%s' % (len(cases),
                                                              g.tail()))
    for i, c in enumerate(cases):
        c['predist'] = i % 2 == 1
        c['linkbase'] = i % 3 == 0
    res = pmap(run_case, cases)
    traces = [{'id': i + 1, 'events': [ev]} for i, ev in enumerate(res)]
    rej, st = validate_traces('Glob_Trace', TRACE, traces, chunk=400)
    ck.traces = len(traces)
    ck.evaluations = len(traces) * 3
    ck.states += st['distinct']
    ck.transitions += st['generated']
    for tid, info in sorted(rej.items()):
        ev = res[tid - 1]
        feats = []
        if any(pat_str(p).count('**') >= 1 for p in ev['filter']['include']):
            feats.append('starstar')
        if ev['filter']['exclude']:
            feats.append('exclude')
        if ev['filter']['extra']:
            feats.append('extra')
        if len(ev['filter']['include']) > 1:
            feats.append('multi')
        import fnmatch
        for pat in ev['pats']:
            base = []
            for c in pat.split('/'):
                if any(x in c for x in '*?['):
                    break
                base.append(c)
            for g in ev['kw'].get('exclude', []):
                isdirglob = g.endswith('/') or ev['kw'].get('type') in ('d', '*')
                if base and isdirglob and fnmatch.fnmatchcase(
                        base[-1], g.rstrip('/')):
                    feats.append('base-dir-matches-exclude')
        ck.report('C11:%s:%s' % (info[0], '+'.join(feats)),
                  '%s: patterns %r %r -> %s' % (info[0], ev['pats'], ev['kw'],
                                                json.dumps(info[2])[:300]),
                  {'patterns': ev['pats'], 'kwargs': ev['kw'],
                   'tree': [['/'.join(unsyms(n) for n in e['path']),
                             e['dir']] for e in ev['tree']],
                   'event': {k: v for k, v in ev.items() if k != 'tree'}})
    for ev in res[:3]:
        ck.sample({'patterns': ev['pats'], 'kwargs': ev['kw'],
                   'tree': [['/'.join(unsyms(n) for n in e['path']),
                             e['dir']] for e in ev['tree']],
                   'found': [['/'.join(unsyms(n) for n in e['path']),
                              e['dir']] for e in ev['found']]})
    nontriv = sum(1 for ev in res if ev['found'])
    ck.assumptions += [
        'names from a fixed list incl. dotted, hidden, backup, blank and '
        'glob-metacharacter names; every second leaf directory is a symbolic '
        'link to a populated directory outside the tree (listed, not descended)',
        'exclude globs are applied to entries strictly below a pattern\'s '
        'literal base directory (the base is named by the caller); whether '
        'the search root itself, whose relative name is empty, is hit by a '
        'glob such as "*" is left open',
        'extra entries are required only for siblings of selected entries '
        '(the documentation does not say which directories are searched)']
    ck.finish(rule='cases = (tree, filter) from Glob_Gen.tla, one per seed; '
              'each runs find_paths three times (first, cached, cache=False) '
              'inside a real configure; non-trivial = the call returns at '
              'least one entry', distinct_nontrivial=nontriv)
