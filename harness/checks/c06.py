"""C06 - Makefile, build.ninja and compile_commands.json describe the same
build.  Specs: Script.tla / Script_Gen.tla (scripts), Backends_Trace.tla
(contract + allow-list of documented backend-specific additions).  Binding:
each generated script is configured for both backends; every step is executed
through stub tools on both and its program/argv/cwd/env recorded, the set of
buildable targets and the compile_commands.json entries are extracted, and
the same touch/rebuild history is run on both."""
import json
import os
import re

from engine import Check, validate_traces, pmap, BIN
import scriptgen as sg
from checks import c03

TRACE = 'SPECIFICATION TraceSpec\nCHECK_DEADLOCK FALSE\n'
CONFIGS = [
    ([], {}),
    (['--enable-shared', '--enable-static'], {}),
    (['--prefix', '/opt/my app'], {'CFLAGS': '-DENVFLAG -O1',
                                   'LDFLAGS': '-Lenvdir'}),
    ([], {'CPPFLAGS': '-DCPP=1', 'LDLIBS': '-lm'}),
]


# global options of every kind in every script (they meet the flags taken
# from the environment in one command line)
HEADER = ("global_options(['-DGLOBAL_C=1'], lang='c')\n"
          "global_link_options(['-Wl,--as-needed', '-Lglobaldir'])\n"
          "global_link_options(['--verif-static-flag'], mode='static')\n"
          # steps with an environment: a single string-form compound command,
          # several command lines, a list-form command
          "command('envchain', cmd=R + ' ENVA && ' + R + ' ENVB', "
          "environment={'VV_ONE': '1', 'VV_TWO': 'a b'})\n"
          "command('envlines', cmds=[[R, 'ENVC'], R + ' ENVD | ' + R + "
          "' ENVE'], environment={'VV_ONE': '2'})\n"
          "envstep = build_step('envstep.txt', cmd=[R, 'ENVF', "
          "'--verif-touch=envstep.txt'], environment={'VV_THREE': '3'})\n"
          # several commands without an environment that share one shell: a
          # change of directory and a shell variable carry over to the next
          "command('cdstep', cmds=[['mkdir', '-p', 'wk dir'], ['cd', 'wk dir'],"
          " [R, 'CDA']])\n"
          "command('shvar', cmds=['VV_SH=\"a b\"', R + ' CDB \"$VV_SH\"'])\n"
          # a copy with a further dependency (the copy tool records its argv)
          "copy_file('cpx.txt', source_file('d1.txt'), extra_deps=[envstep])")


def steps_of(r, goals):
    """run every goal; -> {output/id: record}"""
    recs = {}
    for g in goals:
        if os.path.exists(r.log):
            os.remove(r.log)
        args = ['-k'] if r.backend == 'make' else ['-k', '0']
        r.p.tool(args + [g], env={'VERIF_LOG': r.log})
        if not os.path.exists(r.log):
            continue
        for line in open(r.log):
            x = json.loads(line)
            argv = [bytes.fromhex(a).decode() for a in x['argv']]
            cwd = bytes.fromhex(x['cwd']).decode()
            key = None
            if x['kind'] in ('cc', 'cxx') and '-o' in argv:
                key = 'out:' + os.path.normpath(argv[argv.index('-o') + 1])
            elif x['kind'] == 'ar' and len(argv) > 2:
                key = 'out:' + os.path.normpath(argv[2])
            elif x['kind'] == 'rec' and len(argv) > 1:
                key = 'id:' + argv[1]
            if key and key not in recs:
                rel = os.path.relpath(cwd, r.p.bld)
                recs[key] = {'present': True,
                             'prog': os.path.basename(argv[0]),
                             'argv': [norm_arg(a, r.p) for a in argv[1:]],
                             'cwd': rel,
                             'env': sorted([k, v] for k, v in
                                           ((bytes.fromhex(k).decode(),
                                             bytes.fromhex(v).decode())
                                            for k, v in x['env'].items()))}
    return recs


def norm_arg(a, p):
    """arguments that name the same path are written the same way; the
    scratch root differs between the two configured copies"""
    a = a.replace(p.root, '<ROOT>')
    if a.startswith('./'):
        a = a[2:]
    return a


def targets_make(p):
    rc, out = p.tool(['-qp', '--no-print-directory', '-f', 'Makefile',
                      'VERIF_NO_SUCH_GOAL'])
    names = set()
    skip = False
    for line in out.splitlines():
        if line.startswith('# Not a target:'):
            skip = True
            continue
        m = re.match(r'^([^#\s:%][^:=]*):(?!=)', line)
        if m and not skip and '=' not in m.group(1):
            for n in m.group(1).split():
                names.add(os.path.normpath(n))
        skip = False
    return names


def targets_ninja(p):
    names = set()
    for line in open(os.path.join(p.bld, 'build.ninja')):
        m = re.match(r'^build ([^:]+):', line)
        if m:
            for n in m.group(1).replace('$ ', '\0').split():
                names.add(os.path.normpath(n.replace('\0', ' ')))
    return names


def compare(arg):
    decls, (cargs, cenv) = arg
    runs = {}
    events = []
    try:
        for b in ('make', 'ninja'):
            r = sg.Runner(decls, b, HEADER)
            r.p.env['CP'] = os.path.join(BIN, 'cplog') + ' -f'
            r.p.args = list(cargs)
            runs[b] = r
            c = r.configure_with(cenv)
            if c['exit'] != 0:
                events.append({'ev': 'Step', 'out': 'configure-' + b,
                               'make': {'present': False},
                               'ninja': {'present': False},
                               'compdb': {'argv': []}, 'note': c['out']})
                return events
        goals = ['all', 'envchain', 'envlines', 'envstep.txt', 'cpx.txt',
                 'cdstep', 'shvar'] + [
            d['name'] for d in decls if d['kind'] in ('alias', 'cmd')] + \
            [r.outs[n] for n in sorted(runs['make'].outs)] + ['tests']
        interm = {'.o', '.d', '.stamp', '.dir'}
        tm = {x for x in targets_make(runs['make'].p)
              if not any(x.endswith(e) for e in interm) and
              not x.startswith('/') and 'VERIF' not in x and
              not x.startswith('.') and x not in ('(%)', 'make')}
        tn = {x for x in targets_ninja(runs['ninja'].p)
              if not any(x.endswith(e) for e in interm) and
              not x.startswith('/')}
        events.append({'ev': 'Targets', 'make': sorted(tm),
                       'ninja': sorted(tn)})
        sm = steps_of(runs['make'], goals)
        sn = steps_of(runs['ninja'], goals)
        cdb = {}
        for b in ('make',):
            pth = os.path.join(runs[b].p.bld, 'compile_commands.json')
            if os.path.exists(pth):
                for ent in json.load(open(pth)):
                    if 'output' in ent:
                        cdb['out:' + os.path.normpath(ent['output'])] = {
                            'argv': [norm_arg(a, runs[b].p)
                                     for a in ent['arguments'][1:]],
                            'cwd': os.path.relpath(ent['directory'],
                                                   runs[b].p.bld)}
        for key in sorted(set(sm) | set(sn)):
            events.append({'ev': 'Step', 'out': key,
                           'make': sm.get(key, {'present': False}),
                           'ninja': sn.get(key, {'present': False}),
                           'compdb': cdb.get(key, {'argv': []})})
        return events
    finally:
        for r in runs.values():
            r.close()


def main(argv):
    ck = Check('C06', argv)
    n = 24 if ck.quick else 400
    scripts, g = sg.generate(n, ck.seed + 3, 6 if ck.quick else 8)
    ck.add_model(g, 'Script_Gen: %d scripts' % len(scripts))
    # (the hand-written scripts of C03 - dual-use libraries, test_deps,
    # pre-built libraries, copies and links ... - on both backends as well)
    scripts = c03.directed() + scripts
    jobs = [(s, CONFIGS[i % len(CONFIGS)]) for i, s in enumerate(scripts)]
    res = pmap(compare, jobs, jobs=8)
    # same history on both backends (dependency relation)
    hs = pmap(c03.history, [(s, b) for s in scripts for b in ('make',
                                                              'ninja')])
    traces = []
    for i, ev in enumerate(res):
        hm, hn = hs[2 * i], hs[2 * i + 1]
        ran = []
        last = 'clean'
        for a, b in zip(hm, hn):
            if a['ev'] == 'Touch':
                last = 'touch ' + (a['f'] or a['t'])
            if a['ev'] == 'Build' and b['ev'] == 'Build':
                ran.append({'ev': 'Ran', 'goal': a['goal'], 'cause': last,
                            'make': a['ran'], 'ninja': b['ran'],
                            'sym': [d['name'] for d in scripts[i]
                                    if d['kind'] == 'copy' and
                                    d.get('mode') == 'symlink' and
                                    d['ins'][0]['t']]})
        traces.append({'id': i + 1, 'events': [
            {k: v for k, v in e.items() if k != 'note'} for e in ev] + ran})
    rej, st = validate_traces('Backends_Trace', TRACE, traces, chunk=30)
    ck.traces = len(traces)
    ck.evaluations = sum(len(t['events']) for t in traces)
    ck.states += st['distinct']
    ck.transitions += st['generated']
    for tid, info in sorted(rej.items()):
        decls, cfg = jobs[tid - 1]
        ev = traces[tid - 1]['events'][info[1] - 1]
        kind = ''
        if ev['ev'] == 'Step':
            kind = ev['out'].split(':')[0] + ':' + (
                os.path.splitext(ev['out'])[1] or 'bin')
        ck.report('C06:%s:%s' % (info[0], kind),
                  '%s: %s\nscript:\n%s' % (info[0], json.dumps(ev)[:900],
                                          sg.bfg_text(decls)),
                  {'decls': decls, 'config': cfg, 'event': ev,
                   'build.bfg': sg.bfg_text(decls)})
    ck.sample({'build.bfg': sg.bfg_text(jobs[0][0]),
               'events': traces[0]['events'][:4]})
    ck.assumptions += [
        'allow-list (Backends_Trace.tla): Ninja adds -fdiagnostics-color; '
        'bookkeeping targets Makefile/build.ninja/clean/PHONY/%/.dir; '
        'object files, depfiles, stamps and directory sentinels are not '
        'compared as buildable targets; "./x" and "x" denote the same path',
        'steps are observed through stub tools; copy steps (real cp) are '
        'compared through the touch/rebuild histories only']
    ck.finish(rule='scripts from Script_Gen.tla x 4 configurations (library '
              'modes, prefix, CFLAGS/LDFLAGS/CPPFLAGS/LDLIBS in the '
              'environment); non-trivial = script with at least one compile '
              'or link step', distinct_nontrivial=len(traces))
