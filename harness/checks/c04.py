"""C04 - file names with special characters denote the same file in the build
tool.  Specs: Names.tla (the classes of names the property excludes per
backend), Names_Trace.tla (contract on recorded cycles).  Binding: one real
project per (name, role, backend): configure, build (file created at exactly
that path), build again (up to date), touch the named prerequisite (noticed),
clean (removed) - with real GNU Make / the reference Ninja and stub tools.
Whether a name is representable at all is established at run time with a
hand-written reference build file written by a reference escaper that shares
no code with bfg9000."""
import itertools
import json
import os
import random
import shutil

from engine import (Check, tlc_ok, validate_traces, pmap, run, tool_env, BIN,
                    scratch, syms, MachineryError)
import regen

ROLES = ['source', 'output', 'srcdir', 'outdir', 'copy', 'install', 'insthdr',
         'depfile', 'header', 'finddir', 'rootobj']
PUNCT = list('!"#$%&\'()*+,-.:;<=>?@[]^_`{|}~ ')


# ------------------------------------------------------------ reference files
def shq(s):
    return "'" + s.replace("'", "'\\''") + "'"


def mk_escape(s, target):
    """GNU Make manual: backslash before blank, '#', ':' (targets), '%'
    (targets, where a pattern is possible), wildcard characters; a backslash
    that precedes such a character is doubled; '$' is written '$$'."""
    out = []
    special = ' #*?[' + (':%' if target else '')
    i = 0
    while i < len(s):
        c = s[i]
        if c == '\\':
            j = i
            while j < len(s) and s[j] == '\\':
                j += 1
            n = j - i
            if j < len(s) and s[j] in special:
                out.append('\\' * (2 * n))
            else:
                out.append('\\' * n)
            i = j
            continue
        if c == '$':
            out.append('$$')
        elif c in special:
            out.append('\\' + c)
        else:
            out.append(c)
        i += 1
    return ''.join(out)


def reference_make(name):
    root = scratch('verif-c04ref-')
    try:
        os.makedirs(os.path.join(root, 'src'))
        os.makedirs(os.path.join(root, 'out'))
        src = os.path.join('src', name + '.txt')
        out = os.path.join('out', name + '.o')
        open(os.path.join(root, src), 'w').write('x')
        open(os.path.join(root, 'Makefile'), 'w').write(
            'all: %s\n%s: %s\n\tcp %s %s\n\t@echo RAN\nclean:\n\trm -f %s\n'
            % (mk_escape(out, False), mk_escape(out, True),
               mk_escape(src, False), shq(src).replace('$', '$$'),
               shq(out).replace('$', '$$'), shq(out).replace('$', '$$')))
        return cycle_generic(root, ['make'], os.path.join(root, out),
                             os.path.join(root, src), ['make', 'clean'])
    except OSError:
        return False
    finally:
        shutil.rmtree(root, ignore_errors=True)


def nj_escape(s):
    return s.replace('$', '$$').replace(' ', '$ ').replace(':', '$:')


def reference_ninja(name):
    root = scratch('verif-c04ref-')
    try:
        os.makedirs(os.path.join(root, 'src'))
        src = os.path.join('src', name + '.txt')
        out = os.path.join('out', name + '.o')
        open(os.path.join(root, src), 'w').write('x')
        open(os.path.join(root, 'build.ninja'), 'w').write(
            'rule cp\n  command = cp $in $out\nbuild %s: cp %s\n'
            'default %s\n' % (nj_escape(out), nj_escape(src),
                              nj_escape(out)))
        nj = os.path.join(BIN, 'ninja')
        return cycle_generic(root, [nj], os.path.join(root, out),
                             os.path.join(root, src), [nj, '-t', 'clean'])
    except OSError:
        return False
    finally:
        shutil.rmtree(root, ignore_errors=True)


def mt(p):
    try:
        return os.stat(p).st_mtime_ns
    except OSError:
        return None


def cycle_generic(root, build, out, prereq, clean):
    env = tool_env()
    rc, o = run(build, cwd=root, env=env)
    if rc != 0 or not os.path.isfile(out):
        return False
    m1 = mt(out)
    rc, o = run(build, cwd=root, env=env)
    if rc != 0 or mt(out) != m1:
        return False
    regen.tick(root)
    os.utime(prereq)
    rc, o = run(build, cwd=root, env=env)
    if rc != 0 or mt(out) == m1:
        return False
    rc, o = run(clean, cwd=root, env=env)
    return rc == 0 and not os.path.exists(out)


# ------------------------------------------------------------------ bfg9000
def project_for(role, n):
    files = {'main.c': 'int main(void){return 0;}\n'}
    if role == 'source':
        files[n + '.c'] = 'int f(void){return 1;}\n'
        bfg = "executable('prog', ['main.c', %r])" % (n + '.c')
        prereq, outs = n + '.c', [('obj', n + '.c'), ('file', 'prog')]
    elif role == 'output':
        bfg = "executable(%r, ['main.c'])" % n
        prereq, outs = 'main.c', [('file', n)]
    elif role == 'rootobj':
        # an object file placed directly in the build directory (no
        # intermediate directory) and named as an argument of the link step
        files[n + '.c'] = 'int f(void){return 0;}\n'
        files['main.c'] = 'int f(void);\nint main(void){return f();}\n'
        bfg = ("o = object_file(file=%r)\n"
               "m = object_file(file='main.c')\n"
               "executable('prog', [m, o])" % (n + '.c'))
        prereq, outs = n + '.c', [('obj', n + '.c'), ('file', 'prog')]
    elif role == 'srcdir':
        files[n + '/m.c'] = 'int f(void){return 1;}\n'
        bfg = "executable('prog', ['main.c', %r])" % (n + '/m.c')
        prereq, outs = n + '/m.c', [('obj', n + '/m.c'), ('file', 'prog')]
    elif role == 'outdir':
        bfg = "executable(%r, ['main.c'])" % (n + '/prog')
        prereq, outs = 'main.c', [('file', n + '/prog')]
    elif role == 'depfile':
        # the object (and so its depfile) carries the name; the prerequisite
        # that changes is a header known only through that depfile
        files[n + '.c'] = '// deps: common.h\nint f(void){return 1;}\n'
        files['common.h'] = '#define C 1\n'
        bfg = "executable('prog', ['main.c', %r])" % (n + '.c')
        prereq, outs = 'common.h', [('obj', n + '.c')]
    elif role == 'header':
        # the name is a header known only through the depfile of main.o
        files['main.c'] = '// deps: %s.h\nint main(void){return 0;}\n' % n
        files[n + '.h'] = '#define H 1\n'
        bfg = "executable('prog', ['main.c'])"
        prereq, outs = n + '.h', [('obj', 'main.c')]
    elif role == 'finddir':
        # the name is a directory searched by find_files: it is an entry of
        # the depfile that makes the build files regenerate
        files['lib/' + n + '/m.c'] = 'int f(void){return 1;}\n'
        files['lib/zz/k.c'] = 'int k(void){return 1;}\n'
        bfg = "executable('prog', ['main.c'] + find_files('lib/**/*.c'))"
        prereq = 'lib/' + n + '/m.c'
        outs = [('obj', 'lib/' + n + '/m.c'), ('file', 'prog')]
    elif role == 'install':
        bfg = "install(executable(%r, ['main.c']))" % n
        prereq, outs = 'main.c', [('file', n)]
    elif role == 'insthdr':
        files[n + '.h'] = '#define X 1\n'
        bfg = ("install(header_file(%r))\n"
               "executable('prog', ['main.c'])" % (n + '.h'))
        prereq, outs = 'main.c', [('file', 'prog')]
    else:
        files[n + '.txt'] = 'data\n'
        bfg = "default(copy_file(%r))" % (n + '.txt')
        prereq, outs = n + '.txt', [('file', n + '.txt')]
    files['build.bfg'] = "project('p')\n" + bfg + '\n'
    return files, prereq, outs


def run_cycle(arg):
    backend, role, n, in_scope = arg
    ev = {'backend': backend, 'role': role, 'name': syms(n),
          'in_scope': in_scope, 'configure_exit': -1, 'created': False,
          'uptodate': False, 'noticed': False, 'cleaned': False,
          'installed': True, 'uninstalled': True, 'hdrgone': True,
          'dirnoticed': True, 'dirgone': True,
          'note': ''}
    try:
        files, prereq, outs = project_for(role, n)
        p = regen.Proj(files, backend=backend)
        if role == 'rootobj':
            # the real compiler and linker: a stub does not mind an argument
            # that looks like an option
            for k in ('CC', 'CXX', 'AR'):
                p.env.pop(k, None)
    except OSError as e:
        ev['in_scope'] = False         # the file system itself refuses
        return ev
    try:
        # install roles: the prefix lies inside the scratch directory (nothing
        # can escape it even if DESTDIR were ignored); Ninja takes DESTDIR
        # at configure time, Make on the command line
        stage = os.path.join(p.root, 'stage dir')
        prefix = os.path.join(p.root, 'pfx')
        p.args += ['--prefix', prefix]
        rc, out = p.configure(env={'DESTDIR': stage}
                              if backend == 'ninja' and
                              role in ('install', 'insthdr') else None)
        ev['configure_exit'] = rc
        if rc != 0:
            ev['note'] = out[-300:]
            return ev
        paths = []
        for kind, x in outs:
            if kind == 'file':
                paths.append(os.path.join(p.bld, x))
            else:
                cdb = json.load(open(os.path.join(p.bld,
                                                  'compile_commands.json')))
                want = os.path.join(os.path.realpath(p.src), x)
                hit = [e for e in cdb if os.path.realpath(e['file']) == want]
                if not hit:
                    ev['note'] = 'no compile command for ' + x
                    return ev
                paths.append(os.path.join(p.bld, hit[0]['output']))
        # (a build that never ends - Make re-making its Makefile for ever -
        # is a build that did not create the file)
        import subprocess
        try:
            rc, out = p.tool(timeout=60)
        except subprocess.TimeoutExpired:
            rc, out = -1, 'the build tool did not finish within 60 s'
        ev['created'] = rc == 0 and all(os.path.isfile(x) for x in paths)
        if not ev['created']:
            ev['note'] = out[-300:]
            return ev
        m1 = [mt(x) for x in paths]
        p.tick()
        rc, out = p.tool()
        ev['uptodate'] = rc == 0 and [mt(x) for x in paths] == m1
        p.tick()
        os.utime(os.path.join(p.src, prereq))
        rc, out = p.tool()
        m2 = [mt(x) for x in paths]
        ev['noticed'] = rc == 0 and all(a != b for a, b in zip(m1, m2))
        if not ev['noticed']:
            ev['note'] = out[-300:]
        if role == 'header':
            # the source stops including the header, is rebuilt, the header
            # is deleted: the next build must still go through
            p.tick()
            regen.write(os.path.join(p.src, 'main.c'),
                        'int main(void){return 0;}\n')
            rc, out = p.tool()
            p.tick()
            os.remove(os.path.join(p.src, n + '.h'))
            rc2, out2 = p.tool()
            ev['hdrgone'] = rc == 0 and rc2 == 0
            if not ev['hdrgone'] and not ev['note']:
                ev['note'] = (out + out2)[-300:]
        if role == 'finddir':
            # a file appears in the searched directory: the build files are
            # made again and the program is linked with it; then the whole
            # directory goes away: the next build must still go through
            prog = os.path.join(p.bld, 'prog')
            p.tick()
            regen.write(os.path.join(p.src, 'lib', n, 'new.c'),
                        'int g(void){return 2;}\n')
            m3 = mt(prog)
            rc, out = p.tool()
            ev['dirnoticed'] = rc == 0 and mt(prog) != m3
            if not ev['dirnoticed'] and not ev['note']:
                ev['note'] = out[-300:]
            p.tick()
            shutil.rmtree(os.path.join(p.src, 'lib', n))
            m3 = mt(prog)
            rc, out = p.tool()
            # (Make does not link again when only the list of objects shrank)
            ev['dirgone'] = rc == 0
            if not ev['dirgone'] and not ev['note']:
                ev['note'] = out[-300:]
            paths = [prog]
        if role in ('install', 'insthdr'):
            want = stage + os.path.join(prefix, 'bin', n) \
                if role == 'install' else \
                stage + os.path.join(prefix, 'include', n + '.h')
            if backend == 'make':
                rc, out = p.tool(['install', 'DESTDIR=' + stage])
            else:
                rc, out = p.tool(['install'])
            ev['installed'] = rc == 0 and os.path.isfile(want)
            if not ev['installed'] and not ev['note']:
                ev['note'] = out[-300:]
            if backend == 'make':
                rc, out = p.tool(['uninstall', 'DESTDIR=' + stage])
            else:
                rc, out = p.tool(['uninstall'])
            ev['uninstalled'] = rc == 0 and not os.path.exists(want)
            if ev['installed'] and not ev['uninstalled'] and not ev['note']:
                ev['note'] = out[-300:]
        rc, out = p.tool(['clean'])
        ev['cleaned'] = rc == 0 and not any(os.path.exists(x) for x in paths)
        if not ev['cleaned'] and not ev['note']:
            ev['note'] = out[-300:]
        return ev
    finally:
        p.close()


from escconf import escape_conformance


def names_for(ck):
    rnd = random.Random(ck.seed)
    names = []
    for c in PUNCT:
        names += ['xx%sy' % c, '%sx' % c, 'x%s' % c]
    two = [a + b for a in PUNCT for b in PUNCT]
    names += ['x(y)z', 'x()', '(x)', 'xx  y', 'x   y', 'xx%y%z', '%x%']
    names += ['x%sy' % t for t in rnd.sample(two, 40 if ck.quick else 500)]
    names += [''.join(rnd.choice(PUNCT + ['a', '1']) for _ in range(
        rnd.randint(3, 6))) for _ in range(20 if ck.quick else 400)]
    out = []
    for n in names:
        if n in ('.', '..') or '/' in n or '\\' in n or n.startswith('~'):
            continue
        if n not in out:
            out.append(n)
    return out


def main(argv):
    ck = Check('C04', argv)
    names = names_for(ck)
    # the writers' escape functions against their design model; inputs on
    # which the code is no longer the modelled algorithm go through the real
    # build tool in every role (drift-directed names)
    drift = escape_conformance(ck)
    dnames = []
    for fn, w, out in sorted(drift, key=lambda d: (len(d[1]), d[1])):
        n = 'xx' + w + 'y' if not w.startswith('xx') else w
        for cand in (n, w):
            if cand and cand not in ('.', '..') and '/' not in cand and \
                    '\\' not in cand and '\t' not in cand and \
                    not cand.startswith('~') and cand not in names + dnames:
                dnames.append(cand)
    names += dnames[:60]
    refm = pmap(reference_make, names)
    refn = pmap(reference_ninja, names)
    scope = {('make', n): a for n, a in zip(names, refm)}
    scope.update({('ninja', n): a for n, a in zip(names, refn)})
    ck.note('names', len(names))
    ck.note('out_of_scope_make', [n for n in names if not scope[('make', n)]]
            [:80])
    ck.note('out_of_scope_ninja', [n for n in names
                                   if not scope[('ninja', n)]][:80])
    if not scope[('make', 'xx_y')] or not scope[('ninja', 'xx_y')]:
        raise MachineryError('reference cycle fails for a plain name')
    rnd = random.Random(ck.seed)
    jobs = []
    for n in names:
        for b in ('make', 'ninja'):
            roles = ROLES if len(n) <= 4 and not ck.quick else \
                rnd.sample(ROLES, 2 if ck.quick else 3)
            if n.startswith('xx') or n in ('-x', '(x)', 'x(y)z', ' x', '=x'):
                roles = ROLES
            for r in roles:
                # (the stub compiler's "// deps:" line is blank-separated;
                # header names with blanks are C07's, with the real gcc)
                if r == 'header' and any(c.isspace() for c in n):
                    continue
                jobs.append((b, r, n, scope[(b, n)]))
    res = pmap(run_cycle, jobs)
    traces = [{'id': i + 1, 'events': [
        {k: v for k, v in e.items() if k != 'note'}]}
        for i, e in enumerate(res)]
    rej, st = validate_traces('Names_Trace', 'SPECIFICATION TraceSpec\n'
                              'CHECK_DEADLOCK FALSE\n', traces, chunk=600)
    ck.traces = len(traces)
    ck.evaluations = len(traces)
    ck.states += st['distinct']
    ck.transitions += st['generated']
    for tid, info in sorted(rej.items()):
        b, r, n, s = jobs[tid - 1]
        e = res[tid - 1]
        chars = ''.join(sorted({c for c in n if not c.isalnum()}))
        bad = []
        if "'" in n:
            bad.append('quote')
        if any(c in n for c in '*?[]'):
            bad.append('glob')
        if ',' in n:
            bad.append('comma')
        if '(' in n or ')' in n:
            bad.append('paren')
        if n.startswith(' '):
            bad.append('leadblank')
        if n.startswith('-'):
            bad.append('leaddash')
        if '  ' in n:
            bad.append('multiblank')
        if '%' in n:
            bad.append('percent')
        if ':' in n:
            bad.append('colon')
        key = 'C04:%s:bad=%s' % (b, '+'.join(bad)) if bad else \
            'C04:%s:%s:none:%s' % (b, r, chars)
        if bad == ['percent']:      # identified by role and clause
            key = 'C04:%s:percent:%s:%s' % (b, r, info[0])
        if bad == ['leaddash']:     # identified by the role the name plays
            key = 'C04:%s:leaddash:%s' % (b, r)
        if n.startswith('=') and r == 'rootobj' and b == 'ninja':
            key = 'C04:ninja:leadeq:rootobj'
        ck.report(key,
                  '%s: backend %s role %s name %r: %s' % (
                      info[0], b, r, n, e.get('note', '')[-200:]),
                  {'backend': b, 'role': r, 'name': n, 'event': e})
    ck.sample(res[0])
    ck.sample(res[len(res) // 2])
    ck.assumptions += [
        'in scope = the hand-written reference Makefile / manifest (reference '
        'escaper in harness/checks/c04.py) completes the same four '
        'observations for that name, and the name is not in a class the '
        'property itself excludes (Names.tla)',
        'stub compiler/archiver; roles: source file, output name, source '
        'sub-directory, output directory, copied file']
    ck.finish(rule='names = x<c>y, <c>x, x<c> for every ASCII punctuation '
              'character and blank, sampled two-character combinations and '
              'random names of length 3..6; one project per (name, role, '
              'backend); non-trivial = name in scope with a non-alphanumeric '
              'character', distinct_nontrivial=sum(
                  1 for j in jobs if j[3]))
