"""C03 - the generated dependency graph equals the graph the script describes.
Specs: Script.tla (abstract scripts and the described graph), Script_Gen.tla
(script generation), Graph_Trace.tla (contract).  Binding: every generated
script becomes a real project (stub toolchain), configured with the real
bfg9000 for Make and Ninja; builds of `all`, `tests`, aliases and commands
from clean, a no-op rebuild, and a rebuild after touching every input and
intermediate are recorded and validated by TLC."""
import json

from engine import Check, validate_traces, pmap
import scriptgen as sg

TRACE = 'SPECIFICATION TraceSpec\nCHECK_DEADLOCK FALSE\n'


def history(arg):
    decls, backend = arg
    r = sg.Runner(decls, backend)
    try:
        ev = [{'ev': 'Script', 'decls': decls}]
        c = r.configure()
        ev.append(c)
        if c['exit'] != 0:
            return ev
        ev.append(r.build('all'))
        ev.append(r.build('all'))
        if any(d['kind'] == 'test' for d in decls):
            ev.append(r.build('tests'))
        for d in decls:
            if d['kind'] in ('alias', 'cmd'):
                ev.append(r.build(d['name']))
        used = set()
        for d in decls:
            for x in d['srcs'] + d['ins']:
                if x['f']:
                    used.add(x['f'])
        if used & {'s1', 's2'}:
            used.add('h1')
        used |= {'pch_' + d['name'] for d in decls if d.get('pch')}
        if any(d.get('hdr') for d in decls):
            used.add('h2')
        if any(d.get('vlib') for d in decls):
            used.add('v1')
        for f in sorted(used):
            ev.append(r.touch(f=f))
            ev.append(r.build('all'))
        for d in decls:
            if d['kind'] in ('slib', 'shlib', 'step', 'copy'):
                tev = r.touch(t=d['name'])
                if tev:
                    ev.append(tev)
                    ev.append(r.build('all'))
        ev.append(r.build('all'))
        return ev
    finally:
        r.close()


def directed():
    """hand-written scripts for the feature combinations the generator
    reaches only rarely: a precompiled header next to generated headers, a
    generated header produced from another target's output"""
    B = dict(kind='', name='', srcs=[], libs=[], ins=[], nouts=1,
             always=False, deps=[], dist=True, pch=False, xdeps=[], cdeps=[],
             vlib=False, hdr=False,
             mode='copy')

    def F(f):
        return {'f': f, 't': ''}

    def T(t):
        return {'f': '', 't': t}
    out = []
    for kind in ('exe', 'slib', 'shlib'):
        out.append([
            dict(B, kind='step', name='t1', ins=[F('d1')], nouts=2),
            dict(B, kind=kind, name='t2', srcs=[F('s1')], ins=[T('t1')],
                 pch=True),
            dict(B, kind='exe', name='t3', srcs=[F('s2')], pch=True)])
        out.append([
            dict(B, kind='copy', name='t1', ins=[F('d1')]),
            dict(B, kind='step', name='t2', ins=[T('t1'), F('s3')], nouts=2),
            dict(B, kind=kind, name='t3', srcs=[T('t2')], ins=[T('t2')],
                 pch=True),
            dict(B, kind='default', name='t4', deps=['t3'])])
    # a test whose command names further built files that nothing else needs
    out.append([
        dict(B, kind='step', name='t1', ins=[F('d1')]),
        dict(B, kind='copy', name='t2', ins=[F('s3')]),
        dict(B, kind='exe', name='t3', srcs=[F('s1')]),
        dict(B, kind='test', name='t4', deps=['t3', 't1', 't2']),
        dict(B, kind='exe', name='t5', srcs=[F('s2')])])
    out.append([
        dict(B, kind='step', name='t1', ins=[F('d1')], nouts=2),
        dict(B, kind='exe', name='t2', srcs=[F('s1')]),
        dict(B, kind='exe', name='t3', srcs=[F('s2')]),
        dict(B, kind='test', name='t4', deps=['t2', 't1']),
        dict(B, kind='test', name='t5', deps=['t3']),
        dict(B, kind='default', name='t6', deps=['t3'])])
    # test_deps(): further members of the `tests` target
    out.append([
        dict(B, kind='step', name='t1', ins=[F('d1')]),
        dict(B, kind='step', name='t2', ins=[F('s3'), T('t1')], nouts=2),
        dict(B, kind='exe', name='t3', srcs=[F('s1')]),
        dict(B, kind='test', name='t4', deps=['t3']),
        dict(B, kind='tdeps', name='t5', deps=['t2']),
        dict(B, kind='exe', name='t6', srcs=[F('s2')])])
    # copies and symbolic links of built files, and what consumes them
    for mode in ('copy', 'symlink'):
        out.append([
            dict(B, kind='step', name='t1', ins=[F('d1')]),
            dict(B, kind='copy', name='t2', ins=[T('t1')], mode=mode),
            dict(B, kind='copy', name='t6', ins=[F('s3')], xdeps=['t1']),
            dict(B, kind='step', name='t3', ins=[T('t2')]),
            dict(B, kind='exe', name='t4', srcs=[F('s1')], xdeps=['t2']),
            dict(B, kind='default', name='t5', deps=['t3', 't4', 't6'])])
    # extra_compile_deps of targets with several sources: every object
    for kind in ('exe', 'slib', 'shlib'):
        out.append([
            dict(B, kind='step', name='t1', ins=[F('d1')]),
            dict(B, kind='copy', name='t2', ins=[F('s3')]),
            dict(B, kind=kind, name='t3', srcs=[F('s1'), F('s2'), T('t1')],
                 cdeps=['t2']),
            dict(B, kind='exe', name='t4', srcs=[F('s3'), F('s1')],
                 cdeps=['t1'], xdeps=['t2'])])
    # dual-use libraries: as explicit default, as installed file, linked by
    # a program (which takes the shared half only), in the implicit set
    for how in ('default', 'install', 'default+exe', 'implicit'):
        sc = [dict(B, kind='step', name='t1', ins=[F('d1')], nouts=2),
              dict(B, kind='dlib', name='t2', srcs=[F('s1'), T('t1')],
                   ins=[T('t1')], vlib=(how == 'default')),
              dict(B, kind='exe', name='t3', srcs=[F('s2')], libs=['t2'],
                   vlib=(how != 'install')),
              dict(B, kind='exe', name='t4', srcs=[F('s3')])]
        if how == 'default':
            sc.append(dict(B, kind='default', name='t5', deps=['t2']))
        elif how == 'install':
            sc.append(dict(B, kind='install', name='t5', deps=['t2']))
        elif how == 'default+exe':
            sc.append(dict(B, kind='default', name='t5', deps=['t3', 't2']))
        out.append(sc)
    # a symbolic-link copy with a further dependency that is built after
    # the file the link points to (recorded finding)
    out.append([
        dict(B, kind='exe', name='t1', srcs=[F('s1')]),
        dict(B, kind='step', name='t2', ins=[F('d1')], xdeps=['t1']),
        dict(B, kind='copy', name='t3', ins=[T('t1')], mode='symlink',
             xdeps=['t2']),
        dict(B, kind='default', name='t4', deps=['t3'])])
    # always-outdated steps with one and with two outputs, and their consumers
    for nouts in (1, 2):
        out.append([
            dict(B, kind='step', name='t1', ins=[F('d1')], nouts=nouts,
                 always=True),
            dict(B, kind='exe', name='t2', srcs=[F('s1'), T('t1')]),
            dict(B, kind='step', name='t3', ins=[T('t1'), F('s3')]),
            dict(B, kind='exe', name='t4', srcs=[F('s2')])])
    return out


def strip(ev):
    return {k: v for k, v in ev.items() if k != 'out'}


def main(argv):
    ck = Check('C03', argv)
    n = 40 if ck.quick else 700
    scripts, g = sg.generate(n, ck.seed, 6 if ck.quick else 8)
    ck.add_model(g, 'Script_Gen: %d scripts' % len(scripts))
    scripts = directed() + scripts
    jobs = [(s, b) for s in scripts for b in ('make', 'ninja')]
    hists = pmap(history, jobs)
    traces = [{'id': i + 1, 'events': [strip(e) for e in h]}
              for i, h in enumerate(hists)]
    rej, st = validate_traces('Graph_Trace', TRACE, traces, chunk=40)
    ck.traces = len(traces)
    ck.evaluations = sum(1 for h in hists for e in h if e['ev'] == 'Build')
    ck.states += st['distinct']
    ck.transitions += st['generated']
    softs = sorted({(x[0], x[1], x[2], json.dumps(x[3])) for x in st['soft']})
    for tid, clause, line, what in softs:
        decls, backend = jobs[tid - 1]
        ck.report('C03:%s:%s:symlink-copy-with-extra-deps' % (clause,
                                                              backend),
                  '%s (%s) at event %d: %s; script:\n%s' % (
                      clause, backend, line, what, sg.bfg_text(decls)),
                  {'decls': decls, 'backend': backend,
                   'build.bfg': sg.bfg_text(decls)})
    for tid, info in sorted(rej.items()):
        decls, backend = jobs[tid - 1]
        h = hists[tid - 1]
        ev = h[info[1] - 1]
        prev = h[info[1] - 2] if info[1] > 1 else {}
        kinds = sorted({d['kind'] for d in decls if d['name'] in
                        [x if isinstance(x, str) else x[0]
                         for x in (info[2] if isinstance(info[2], list)
                                   else [])]})
        cause = ('after-touch-%s' % ('file' if prev.get('f') else 'output')
                 if prev.get('ev') == 'Touch' else
                 'goal-%s' % (ev.get('goal') if ev.get('goal') in
                              ('all', 'tests') else 'target'))
        ck.report('C03:%s:%s:%s:%s' % (info[0], backend, cause,
                                      '+'.join(kinds)),
                  '%s (%s) at event %d %s: %s; script:\n%s' % (
                      info[0], backend, info[1], json.dumps(strip(ev)),
                      json.dumps(info[2]), sg.bfg_text(decls)),
                  {'decls': decls, 'backend': backend,
                   'build.bfg': sg.bfg_text(decls), 'events': h[:info[1]]})
    ck.sample({'build.bfg': sg.bfg_text(jobs[0][0]),
               'events': [strip(e) for e in hists[0][1:6]]})
    ck.assumptions += [
        'stub compilers/archiver (outputs are rewritten whenever a step '
        'runs), header h1.h reaches objects through the stub depfile',
        'a static library may (but need not) be rebuilt when a library '
        'listed in its libs= changes; executables and shared libraries must '
        'be relinked when a library forwarded by a static library changes',
        'deletion of outputs is not part of the histories']
    ck.finish(rule='scripts from Script_Gen.tla (3..%d declarations over 10 '
              'kinds) x {make, ninja}; per script: builds of all/tests/'
              'aliases/commands from clean, a no-op rebuild, and one rebuild '
              'per touched input file and per touched intermediate output; '
              'non-trivial = history with at least one touch'
              % (6 if ck.quick else 8), distinct_nontrivial=len(traces))
