"""C13 - build files are a deterministic function of project and
configuration.  Specs: Determ_Gen.tla (context space, enumerated by TLC),
Determ_Trace.tla (contract), Script_Gen.tla (projects).  Binding: each project
is configured once per context (hash seed x invoking directory x relative /
absolute build directory x unrelated environment variables) and the digests
of the generated files are validated by TLC."""
import hashlib
import json
import os
import shutil

from engine import (Check, tlc_ok, validate_traces, pmap, run, tool_env, BIN,
                    scratch, MachineryError)
import scriptgen as sg
import regen
from zoo import ZOO, zoo_files

TRACE = 'SPECIFICATION TraceSpec\nCHECK_DEADLOCK FALSE\n'
TRAILER = '''
dual = library('dual', ['s3.c'])
default(dual)
install(dual)
hdr = header_file('h1.h')
pkg_config('dualpkg', version='1.0', includes=[hdr], libs=[dual])
# a version range in Conflicts (several specifiers of one package), and a
# range in Requires if the version accepts one
pkg_config('rangepkg', version='1.0', libs=[dual],
           conflicts=[('dep', '>=1.2,<2.0,!=1.5'), ('other', '>1,!=3')])
try:
    pkg_config('rangepkg2', version='1.0', libs=[dual],
               requires=[('dep', '>=1.2,<2.0,!=1.5')])
except ValueError:
    pass
found = find_files('extra/*.c', extra='*.h')
if found:
    executable('fromfound', found)
global_options(['-DG1', '-DG2'], lang='c')
# one step with outputs in several directories, environments with several
# variables, objects in several intermediate directories, several installs
ms = build_step(['gen/src/p.c', 'gen/include/p.h', 'doc/p.txt', 'zz/q.txt',
                 'aa/r.txt'], cmd=[R, 'MS'])
command('cmdx', cmds=[[R, 'a'], [R, 'b']],
        environment={'K1': 'v', 'K2': 'w', 'K3': 'x', 'K4': 'y'})
tst = executable('tests/deep/tst', ['s3.c', 'sub1/u.c', 'sub2/v.c', 'sub3/w.c'],
                 includes=[ms[1]])
test(tst, environment={'A': '1', 'B': '2', 'C': '3', 'D': '4'})
alias('al', [ms[0], ms[2], tst])
install(header_file('h1.h'), man_page('man/p.1', compress=False))
extra_dist(files=['d1.txt', 'sub1/u.c'])
# a header directory of the project that a relative -I of the configured
# CPPFLAGS also names when bfg9000 is invoked from the source directory
executable('incuser', ['sub2/v.c'], includes=['include', 'sub1'])
# a tool looked up by name on the configure-time PATH
command('usetool', cmd=[system_executable('rec'), 'T'])
'''


def contexts(ck):
    seeds = [0, 1, 2, 7, 42, 1234, 99999, 31337] if not ck.quick else \
        [0, 1, 7, 42, 1234]
    cfg = ('CONSTANTS\n Seeds = {%s}\n Cwds = {"src", "build", "other"}\n'
           ' Forms = {"rel", "abs"}\n Noises = {0, 1}\nSPECIFICATION Spec\n'
           'INVARIANT Emit\nCHECK_DEADLOCK FALSE\n' %
           ', '.join(str(s) for s in seeds))
    g = tlc_ok('Determ_Gen', cfg)
    ctxs = [p for p in g.prints if isinstance(p, dict) and 'seed' in p]
    if len(ctxs) != g.distinct:
        raise MachineryError('contexts %d != states %d' % (len(ctxs),
                                                           g.distinct))
    return ctxs, g


def digest_files(bld):
    primary, aux = [], []
    for dp, dns, fns in os.walk(bld):
        for n in sorted(fns):
            p = os.path.join(dp, n)
            rel = os.path.relpath(p, bld)
            if n in ('Makefile', 'build.ninja', 'compile_commands.json') \
                    or n.endswith('.pc'):
                primary.append({'file': rel, 'digest': hashlib.sha1(
                    open(p, 'rb').read()).hexdigest()})
            elif n == '.bfg_find_deps':
                txt = open(p).read()
                aux.append({'file': rel, 'entries': sorted(
                    txt.replace(':', ' ').split())})
            elif n == '.bfg_find_cache':
                d = json.load(open(p))
                aux.append({'file': rel, 'entries': sorted(
                    json.dumps(x, sort_keys=True)
                    for x in d['data']['cache'])})
    return sorted(primary, key=lambda x: x['file']), \
        sorted(aux, key=lambda x: x['file'])


# a small project configured with the REAL compiler (which reports its search
# directories, resolved against the invoking directory) and without anything
# that would query the compiler while the script runs
REAL_SCRIPT = '''
executable('incuser', ['sub2/v.c'], includes=['include', 'sub1'])
library('rl', ['sub1/u.c'], includes=[header_directory('include')])
'''


def run_project(arg):
    decls, backend, ctxs = arg[:3]
    real = len(arg) > 3 and arg[3]
    # a toolchain file is part of the saved configuration: it sets install
    # directories (overridden on the command line) and EXTENDS a variable
    tc = len(arg) > 4 and arg[4]
    files = sg.source_files(decls)
    files['build.bfg'] = sg.bfg_text(decls) + (
        REAL_SCRIPT if real else TRAILER + ZOO)
    files.update(zoo_files())
    for _n in ('sub1/u.c', 'sub2/v.c', 'sub3/w.c'):
        files[_n] = 'int %s;\n' % _n[5]
    files['man/p.1'] = '.TH p 1\n'
    files['include/i.h'] = '#define I 1\n'
    files['extra/e1.c'] = 'int e1;\n'
    files['extra/e2.c'] = 'int e2;\n'
    files['extra/e.h'] = 'int e;\n'
    p = regen.Proj(files, backend=backend)
    if real:
        for k in ('CC', 'CXX', 'AR'):
            p.env.pop(k, None)
    os.makedirs(os.path.join(p.root, 'other'))
    tcpath = os.path.join(p.root, 'tc.bfg')
    if tc:
        regen.write(tcpath, "install_dirs(prefix='/usr/cross', "
                    "libdir='/usr/cross/lib64')\n"
                    "environ['CPPFLAGS'] = environ.get('CPPFLAGS', '') + "
                    "' -DCROSS'\n"
                    "environ.setdefault('LDFLAGS', '-Lcross')\n")
    events = []
    try:
        for c in ctxs:
            shutil.rmtree(p.bld, ignore_errors=True)
            cwd = {'src': p.src, 'build': p.root, 'other':
                   os.path.join(p.root, 'other')}[c['cwd']]
            if c['cwd'] == 'build':
                os.makedirs(p.bld, exist_ok=True)
                cwd = p.bld
            bd = p.bld if c['form'] == 'abs' else os.path.relpath(p.bld, cwd)
            env = dict(p.env)
            env['PYTHONHASHSEED'] = str(c['seed'])
            # part of the configuration (the same in every context)
            env['CPPFLAGS'] = '-Iinclude -I../src/sub1 -DCONF=1'
            if c['noise']:
                env.update({'ZZ_NOISE': 'x' * (c['seed'] % 7 + 1),
                            'LANGUAGE': 'en', 'COLUMNS': '123'})
            cmd = ['/venv/bin/bfg9000', 'configure-into', p.src, bd,
                   '--no-resolve-packages', '--backend=' + backend,
                   '--enable-shared', '--enable-static']
            if tc:
                cmd += ['--toolchain', tcpath, '--prefix', '/opt/cmd line']
            if c['noise'] and c['form'] == 'rel':
                # the invoking directory is reached through a symbolic link
                # and $PWD carries that spelling (as a login shell leaves it)
                lnk = os.path.join(p.root, 'lnk')
                if not os.path.exists(lnk):
                    os.symlink(p.root, lnk)
                cwd = os.path.join(lnk, os.path.relpath(cwd, p.root))
                env['PWD'] = cwd
            rc, out = run(cmd, cwd=cwd, env=env)
            pr, aux = digest_files(p.bld) if rc == 0 else ([], [])
            events.append({'ev': 'Run', 'ctx': c, 'exit': rc, 'primary': pr,
                           'aux': aux, 'out': out[-300:] if rc else ''})
            if rc == 0 and c['noise'] and not real:
                # the same saved configuration regenerated under another
                # ambient environment (a PATH on which another copy of the
                # tool comes first, other unrelated variables)
                alt = os.path.join(p.root, 'alt tools')
                os.makedirs(alt, exist_ok=True)
                if not os.path.exists(os.path.join(alt, 'rec')):
                    shutil.copy(os.path.join(BIN, 'rec'),
                                os.path.join(alt, 'rec'))
                env2 = dict(env)
                env2['PATH'] = alt + ':' + env['PATH']
                env2['ZZ_OTHER'] = 'y'
                rc2, out2 = run(['/venv/bin/bfg9000', 'regenerate', p.bld],
                                cwd=p.root, env=env2)
                pr2, aux2 = digest_files(p.bld) if rc2 == 0 else ([], [])
                events.append({'ev': 'Run', 'ctx': dict(c, cwd='regenerate'),
                               'exit': rc2, 'primary': pr2, 'aux': aux2,
                               'out': out2[-300:] if rc2 else ''})
        return events
    finally:
        p.close()


def main(argv):
    ck = Check('C13', argv)
    ctxs, g = contexts(ck)
    ck.add_model(g, 'Determ_Gen: %d invocation contexts' % len(ctxs))
    n = 10 if ck.quick else 120
    scripts, gs = sg.generate(n, ck.seed + 13, 6)
    ck.add_model(gs, 'Script_Gen: %d scripts' % len(scripts))
    import random
    rnd = random.Random(ck.seed)
    jobs = []
    for i, s in enumerate(scripts):
        cs = ctxs if not ck.quick else rnd.sample(ctxs, 12)
        jobs.append((s, 'make' if i % 3 else 'ninja', cs, False, i % 2 == 1))
    for b in ('make', 'ninja'):
        jobs.append(([], b, ctxs if not ck.quick else rnd.sample(ctxs, 12),
                     True))
    res = pmap(run_project, jobs)
    traces = [{'id': i + 1, 'events': [
        {k: v for k, v in e.items() if k != 'out'} for e in ev]}
        for i, ev in enumerate(res)]
    rej, st = validate_traces('Determ_Trace', TRACE, traces, chunk=10)
    ck.traces = len(traces)
    ck.evaluations = sum(len(t['events']) for t in traces)
    ck.states += st['distinct']
    ck.transitions += st['generated']
    for tid, info in sorted(rej.items()):
        decls, backend, cs = jobs[tid - 1][:3]
        ev = res[tid - 1][info[1] - 1]
        files = info[2][1] if isinstance(info[2], list) and len(info[2]) > 1 \
            else []
        ck.report('C13:%s:%s:%s' % (info[0], backend, '+'.join(
            sorted(os.path.basename(f) for f in files)) or 'configure'),
            '%s in context %s: %s %s' % (info[0], json.dumps(ev['ctx']),
                                         files, ev.get('out', '')),
            {'decls': decls, 'backend': backend, 'ctx': ev['ctx'],
             'build.bfg': sg.bfg_text(decls) + TRAILER + ZOO})
    ck.sample({'contexts': ctxs[:3], 'digests': res[0][0]['primary']})
    ck.assumptions += ['process id and time vary naturally between runs',
                       'stub compilers; packages/mopack not exercised']
    ck.finish(exhaustive=not ck.quick, rule='projects = Script_Gen scripts '
              '+ a fixed trailer (dual-use library with default/install/'
              'pkg_config, find_files with extra, global options); contexts '
              '= hash seed x invoking directory x relative/absolute build '
              'directory x unrelated variables (all %d in thorough, 12 '
              'sampled per project in quick); non-trivial = context other '
              'than the first' % len(ctxs),
              distinct_nontrivial=sum(len(t['events']) - 1 for t in traces))
