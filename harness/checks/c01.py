"""C01 - Make backend delivers every argument unchanged.
Specs: Quote.tla + MakeLang.tla + ShLang.tla composed in MakeArgs.tla (design
check, bounded, exhaustive), MakeArgs_Trace.tla (contract on recorded runs).
Binding: argpipe.py puts words into every argument position of generated
scripts, runs the real bfg9000 + GNU Make + /bin/sh with recording stubs."""
import json
import random

import argpipe as ap
from engine import (Check, tlc_ok, validate_traces, unsyms, tla_set,
                    MachineryError)

TLA_ALPHA = ['a', ' ', 'TAB', "'", '"', '\\', '$', '#', '%', ':', ';', ',',
             '=', '~', '*', '?', '[', ']', '(', ')', '|', '&', '<', '>', '!',
             '@', '+', '-', '.', '/', '^', '_', '`', '{', '}', '1']


def mc_cfg(maxlen, ctxs, fixed=True):
    return ('CONSTANTS\n EscapeAssignments = %s\n MaxLen = %d\n'
            ' Alpha <- AlphaDef\n Ctxs = {%s}\n'
            'SPECIFICATION Spec\nINVARIANT Report\nCHECK_DEADLOCK FALSE\n' % (
                'TRUE' if fixed else 'FALSE', maxlen,
                ', '.join(json.dumps(c) for c in ctxs)))


VERY_HOT = ['\\', ';', '#', '$', "'", ' ', ',', '~', ':']
TRACE_CFG = 'SPECIFICATION TraceSpec\nCHECK_DEADLOCK FALSE\n'

# which textual context of the Makefile a position is written into
CTX = {'gopt': 'var', 'glopt': 'var', 'copt_list': 'tvar', 'copt_str': 'tvar',
       'lopt_list': 'tvar', 'lopt_str': 'tvar', 'define': 'tvar',
       'incdir': 'tvar'}


def classify(ev, word):
    """normalised key of a failing slot: position class + offending symbols"""
    special = sorted({c for c in word if c in '#'})
    ctx = CTX.get(ev['pos'], 'recipe')
    if ctx in ('var', 'tvar') and ('#' in word or '\\;' in word):
        return 'C01:make-variable-assignment:hash-or-backslash-semicolon'
    feats = ''.join(sorted({c for c in word if not c.isalnum()}))
    return 'C01:%s:%s:%s' % (ev['pos'], 'notstarted' if not ev['started']
                             else 'changed', feats)


def plan(ck):
    rnd = random.Random(ck.seed)
    if ck.quick:
        base = list(ap.words_upto(ap.HOT, 1)) + \
            [c for c in ap.SIGMA if c not in ap.HOT]
        two = ap.sample_words(rnd, ap.HOT, 220, 2, 2) + \
            [a + b for a in VERY_HOT for b in VERY_HOT] + \
            [a + b + c for a in '\\;#' for b in '\\;#' for c in '\\;#a']
        longer = ap.sample_words(rnd, ap.SIGMA, 140, 3, 8)
        words = sorted(set(base + two + longer))
        few = sorted(set(base + two[:40] + longer[:30]))
    else:
        words = sorted(set(list(ap.words_upto(ap.HOT, 2)) +
                           list(ap.words_upto(ap.SIGMA, 1)) +
                           ap.sample_words(rnd, ap.HOT, 3000, 3, 3) +
                           ap.sample_words(rnd, ap.SIGMA, 1500, 3, 10)))
        few = sorted(set(list(ap.words_upto(ap.HOT, 1)) +
                         ap.sample_words(rnd, ap.HOT, 300, 2, 3) +
                         ap.sample_words(rnd, ap.SIGMA, 200, 3, 8)))
    # drift-directed words: inputs on which the real quoting functions are no
    # longer the algorithm of Quote.tla go to every argument position
    from escconf import escape_conformance
    drift = escape_conformance(ck, only=(
        'sh_quote', 'mk_shell', 'mk_function', 'nj_shell'))
    dwords = []
    for fn, w, out in sorted(drift, key=lambda d: (len(d[1]), d[1])):
        if w and w not in dwords and all(c in ap.SIGMA or c == '\\'
                                         for c in w):
            dwords.append(w)
    dwords = dwords[:40]
    words = sorted(set(words + dwords))
    few = sorted(set(few + dwords))
    by = {}
    for pos in ap.POSITIONS:
        by[pos] = few if pos in ap.GLOBAL or pos in ap.PATHLIKE else words
    # (one project per word: a short list)
    # (no quote characters: bfg9000 parses the real gcc's `-v` output, which
    # is not sh-quoted, and refuses such a command at configure time)
    for pos in ('sym_arg', 'symgen_arg'):
        by[pos] = sorted(set(by[pos] + ['a b', 'two words.txt', 'x $HOME y',
                                        'a$b', '$@', 'a @b', '$$', 'a $(x)']))
    # (the word is not the subject: which step receives it is)
    by['dep_link'] = [w for w in few if w][:12 if ck.quick else 60]
    by['wa_link'] = [w for w in few if w][:6 if ck.quick else 30]
    by['gopt_rep'] = [w for w in few if w][:18 if ck.quick else 90]
    by['tool_word'] = [w for w in few if w and "'" not in w and
                       '"' not in w][:24 if ck.quick else 120]
    return by


def main(argv, backend='make', pid='C01', ninja=None):
    ck = Check(pid, argv)
    # 1. design model, exhaustive within the bound; the set of failing
    #    (context, word) pairs is the model's prediction
    maxlen = 2 if ck.quick else 3
    if backend == 'ninja':
        r = tlc_ok('NinjaArgs', 'CONSTANTS\n MaxLen = %d\n Alpha <- AlphaDef\n'
                   'SPECIFICATION Spec\nINVARIANT Report\nCHECK_DEADLOCK FALSE'
                   '\n' % (maxlen + 1), defs='AlphaDef == ' + tla_set(TLA_ALPHA))
        ck.add_model(r, 'NinjaArgs design model, words <= %d over %d symbols'
                     % (maxlen + 1, len(TLA_ALPHA)))
        ck.note('design_model_failing_words',
                sum(1 for l in r.out.splitlines() if l.startswith('<<"FAIL"')))
    else:
        design_make(ck, maxlen)
    real_pipeline(ck, backend, pid, ninja, maxlen)


def design_make(ck, maxlen):
    r = tlc_ok('MakeArgs', mc_cfg(maxlen, ['recipe', 'var', 'tvar']),
               defs='AlphaDef == ' + tla_set(TLA_ALPHA))
    # vacuity guard: without the assignment escaping the model must fail
    rv = tlc_ok('MakeArgs', mc_cfg(2, ['var', 'tvar'], fixed=False),
                defs='AlphaDef == ' + tla_set(['a', '#', ';', '\\', "'"]))
    if '<<"FAIL", "tvar", <<"\\\\", ";">>>>' not in rv.out or \
            '<<"FAIL", "var", <<"#">>>>' not in rv.out:
        ck.machinery('vacuity guard: the unescaped-assignment model does '
                     'not show the "#" / "\\;" failures')
    ck.add_model(r, 'MakeArgs design model, words <= %d over %d symbols' %
                 (maxlen, len(TLA_ALPHA)))
    predicted = set()
    for line in r.out.splitlines():
        if line.startswith('<<"FAIL"'):
            m = line.split('"')
            predicted.add(m[3])
    fails_by_ctx = {c: sum(1 for l in r.out.splitlines()
                           if l.startswith('<<"FAIL", "%s"' % c))
                    for c in ('recipe', 'var', 'tvar')}
    ck.note('design_model_failing_words', fails_by_ctx)


def real_pipeline(ck, backend, pid, ninja, maxlen):
    slots = ap.make_slots(plan(ck))
    events = ap.run_all(slots, backend, ninja, seed=ck.seed)
    traces, byid = [], {}
    for n, s in enumerate(slots):
        ev = events[s.id]
        byid[n + 1] = (s, ev)
        traces.append({'id': n + 1, 'events': [ev]})
    ck.evaluations = len(traces)
    rej, st = validate_traces('MakeArgs_Trace', TRACE_CFG, traces, chunk=4000)
    ck.traces = len(traces)
    ck.states += st['distinct']
    ck.transitions += st['generated']
    for tid, info in sorted(rej.items()):
        s, ev = byid[tid]
        key = classify(ev, s.word) if backend == 'make' else \
            classify(ev, s.word).replace('C01', pid)
        ck.report(key, '%s: position %s word %r delivered %r %s' % (
            info[0], s.pos, s.word,
            [unsyms(x) for x in ev['delivered']], ev.get('note', '')),
            {'pos': s.pos, 'word': s.word, 'event': ev})
    # design-model agreement (SPEC-DRIFT is information, never a verdict)
    drift = 0
    for tid, (s, ev) in byid.items():
        ctx = CTX.get(s.pos, 'recipe')
        if len(s.word) <= maxlen and all(ap.sym if False else True
                                         for _ in ()):
            pass
    ck.note('positions', ap.POSITIONS)
    ck.note('slots_failing_in_their_group', [list(x) for x in ap.LAST_REDO])
    ck.note('env_model_mismatches',
            st['info'].get('ENV-MODEL-MISMATCH', 0))
    ck.drift = st['info'].get('SPEC-DRIFT', 0)
    for tid in (1, len(traces) // 2, len(traces)):
        s, ev = byid[tid]
        ck.sample({'pos': s.pos, 'word': s.word, 'event': ev})
    hot = sum(1 for s in slots if any(not c.isalnum() for c in s.word))
    ck.assumptions += [
        'words over %d symbols (all ASCII punctuation, letter, digit, space, '
        'tab, non-ASCII letter); NUL/CR/LF excluded by the property' %
        len(ap.SIGMA),
        'option strings are written by the harness with sh single-quote '
        'rules (the sub-language bfg9000\'s splitter and sh share)',
        'path-like positions (command word, file argument, include '
        'directory) skip words containing a separator, ".", ".." or a '
        'leading "~"']
    ck.finish(rule='slots = (argument position x word); words: all of '
              'length <=1 over the full alphabet, length 2 over the hot '
              'alphabet (sampled in quick, exhaustive in thorough), seeded '
              'samples up to length 8-10; non-trivial = word contains a '
              'non-alphanumeric symbol; distinct by (position, word)',
              distinct_nontrivial=hot)
