"""C16 - semantic options have their documented effect with the detected
compiler.  Specs: Options.tla (effect predicates over a probe record,
incompatibility relation), Options_Gen.tla (option x placement space: every
slot and every pair, enumerated by TLC), Options_Trace.tla (contract).
Binding: one generated project per case, real configure, real gcc/g++ build,
the probe program's output and readelf facts."""
import json
import os
import random
import shutil
import subprocess

from engine import (Check, tlc_ok, validate_traces, pmap, run, tool_env,
                    scratch, MachineryError)

PROBE = r'''
#include <stdio.h>
#ifdef __cplusplus
#include <cstdlib>
#else
#include <stdlib.h>
#endif
#if defined(__has_include)
# if __has_include("incprobe.h")
#  include "incprobe.h"
# endif
#endif
#ifdef USE_EXT
#ifdef __cplusplus
extern "C"
#endif
int ext_fn(void);
#endif
#ifdef USE_EXT2
#ifdef __cplusplus
extern "C"
#endif
int ext2_fn(void);
#endif
#define STR2(x) #x
#define STR(x) STR2(x)
int main(void) {
#ifdef PROBE
  printf("defval=%s\n", STR(PROBE));
#else
  printf("defval=\n");
#endif
#ifdef ENVDEF
  printf("envdef=1\n");
#endif
#ifdef TCDEF
  printf("tcdef=1\n");
#endif
#ifdef __cplusplus
  printf("std=%ld\n", (long)__cplusplus);
#elif defined(__STDC_VERSION__)
  printf("std=%ld\n", (long)__STDC_VERSION__);
#endif
#ifdef INCPROBE_FOUND
  printf("inc=1\n");
#endif
#ifdef __OPTIMIZE__
  printf("optimize=1\n");
#endif
#ifdef __OPTIMIZE_SIZE__
  printf("optimize_size=1\n");
#endif
#if defined(__PIC__) && __PIC__ == 2
  printf("pic=1\n");
#endif
#ifdef _REENTRANT
  printf("reentrant=1\n");
#endif
#ifdef __SANITIZE_ADDRESS__
  printf("asan=1\n");
#endif
#ifdef PCH_MACRO
  printf("pch=1\n");
#endif
#ifdef USE_EXT
  printf("ext=%d\n", ext_fn());
#endif
#ifdef USE_EXT2
  printf("ext2=%d\n", ext2_fn());
#endif
  printf("stdlib=%d\n", abs(-1));
  return 0;
}
'''
CXXSTD = {'c99': 'c++11', 'c11': 'c++14', 'gnu11': 'c++14', 'c17': 'c++17'}


def opt_expr(s, lang):
    o, v = s['o'], s['v']
    if o == 'define':
        return "opts.define('PROBE', %r)" % v
    if o == 'std':
        return "opts.std(%r)" % (v if lang == 'c' else CXXSTD[v])
    if o == 'include' and v == 'cpath':
        return "opts.include_dir(header_directory(env.srcdir.append('incdir').string()))"
    if o == 'include':
        return "opts.include_dir(header_directory('incdir'))"
    if o == 'sysinclude':
        return "opts.include_dir(header_directory(%r, system=True))" % v
    if o == 'warning':
        return "opts.warning(%s)" % ', '.join(repr(x) for x in v.split('+'))
    if o == 'optimize':
        return "opts.optimize(%r)" % v
    if o == 'lib' and v:
        return "opts.lib(%s(%r))" % (
            'static_library' if v.endswith('.a') else 'shared_library',
            'extlib2/' + v)
    if o == 'lib':
        return "opts.lib_dir(directory('extlib')), opts.lib('ext')"
    return "opts.%s()" % o       # debug pic pthread sanitize static


def run_case(case):
    lang, slots = case['lang'], case['slots']
    ext = 'c' if lang == 'c' else 'cpp'
    root = scratch('verif-c16-')
    try:
        src = os.path.join(root, 'src')
        os.makedirs(os.path.join(src, 'incdir'))
        os.makedirs(os.path.join(src, 'extlib'))
        W = lambda n, t: open(os.path.join(src, n), 'w').write(t)
        W('probe.' + ext, PROBE)
        W('warn.' + ext, 'int wf(void) { int unused_variable; return 0; }\n')
        W('incdir/incprobe.h', '#define INCPROBE_FOUND 1\n')
        W('pre.h', '#define PCH_MACRO 1\n')
        W('extlib/ext.c', 'int ext_fn(void) { return 7; }\n')
        subprocess.run(['gcc', '-c', 'ext.c', '-o', 'ext.o'],
                       cwd=os.path.join(src, 'extlib'), check=True)
        subprocess.run(['ar', 'cr', 'libext.a', 'ext.o'],
                       cwd=os.path.join(src, 'extlib'), check=True)
        # pre-built library files for opts.lib(<file object>), with a decoy
        # of the plain name beside the shared ones
        x2 = os.path.join(src, 'extlib2')
        os.makedirs(x2)
        for s in slots:
            if s['o'] == 'lib' and s['v']:
                nm = s['v']
                if nm.endswith('.a'):
                    subprocess.run(['ar', 'cr', os.path.join(x2, nm),
                                    'ext.o'], cwd=os.path.join(src, 'extlib'),
                                   check=True)
                else:
                    subprocess.run(['gcc', '-shared', '-fPIC', '-Wl,-soname,'
                                    + nm, '-o', os.path.join(x2, nm),
                                    'ext.c'], cwd=os.path.join(src, 'extlib'),
                                   check=True)
                    if nm != 'libext.so':
                        W('extlib2/decoy.c', 'int ext_fn(void) { return 9; }\n')
                        subprocess.run(['gcc', '-shared', '-fPIC',
                                        '-Wl,-soname,libext.so', '-o',
                                        'libext.so', 'decoy.c'], cwd=x2,
                                       check=True)
        comp = {'target': [], 'global': []}
        link = {'link': [], 'globallink': []}
        env_extra, tc_lines, pch = {}, [], ''
        for s in slots:
            if s['o'] == 'include' and s['v'] == 'cpath':
                # (only while configuring: the build runs without CPATH)
                env_extra['CPATH'] = os.path.join(src, 'incdir')
            if s['o'] == 'envlib':
                os.makedirs(os.path.join(src, 'extlib3'), exist_ok=True)
                W('extlib3/ext2.c', 'int ext2_fn(void) { return 5; }\n')
                subprocess.run(['gcc', '-c', 'ext2.c', '-o', 'ext2.o'],
                               cwd=os.path.join(src, 'extlib3'), check=True)
                subprocess.run(['ar', 'cr', 'libext2.a', 'ext2.o'],
                               cwd=os.path.join(src, 'extlib3'), check=True)
                env_extra['LDLIBS'] = '-lext2'
                env_extra['LDFLAGS'] = '-L' + os.path.join(src, 'extlib3')
                comp['target'].append("'-DUSE_EXT2'")
            elif s['o'] == 'envdef':
                # (two-word spelling in two variables: the words of the
                # environment's flags are taken as they are, repeated or not)
                env_extra['CFLAGS' if lang == 'c' else 'CXXFLAGS'] = \
                    '-D ENVDEF=1'
                env_extra['CPPFLAGS'] = '-D ENVCPP=1'
            elif s['o'] == 'pch':
                pch = ", pch='pre.h'"
            elif s['where'] in comp:
                comp[s['where']].append(opt_expr(s, lang))
            elif s['where'] == 'toolchain':
                # a toolchain file takes raw flags: ask bfg9000 for nothing
                # semantic here, only check that the flag survives
                tc_lines.append("compile_options(['-DTCDEF=1'], %r)" % lang)
                comp['global'].append(opt_expr(s, lang))
            else:
                link[s['where']].append(opt_expr(s, lang))
                if s['o'] == 'lib':
                    comp['target'].append("'-DUSE_EXT'")
        L = ["project('p')"]
        if comp['global']:
            L.append("global_options([%s], lang=%r)" % (
                ', '.join(comp['global']), lang))
        if link['globallink']:
            L.append("global_link_options([%s])" % ', '.join(
                link['globallink']))
        copts = ', '.join(comp['target'])
        L.append("executable('prog', ['probe.%s'], compile_options=[%s], "
                 "link_options=[%s]%s)" % (ext, copts,
                                          ', '.join(link['link']), pch))
        L.append("object_file(file='warn.%s', options=[%s])" % (ext, copts))
        if pch:
            # the same precompiled header for library sources: the header is
            # compiled with the options of the objects that use it (pic ...)
            W('pl.' + ext, 'int pl(void) { return PCH2_MACRO; }\n')
            W('pl2.' + ext, 'int pl2(void) { return PCH3_MACRO; }\n')
            W('pre2.h', '#define PCH2_MACRO 2\n')
            W('pre3.h', '#define PCH3_MACRO 3\n')
            L.append("shared_library('pchlib', ['pl.%s'], pch='pre2.h', "
                     "compile_options=[%s])" % (ext, copts))
            L.append("static_library('pchslib', ['pl2.%s'], pch='pre3.h', "
                     "compile_options=[%s])" % (ext, copts))
        W('build.bfg', '\n'.join(L) + '\n')
        args = []
        if tc_lines:
            open(os.path.join(root, 'tc.bfg'), 'w').write(
                '\n'.join(tc_lines) + '\n')
            args = ['--toolchain', os.path.join(root, 'tc.bfg')]
        env = tool_env(env_extra)
        bld = os.path.join(root, 'build')
        f = dict(configure_exit=0, compile_exit=1, link_exit=1, run_exit=1,
                 defval='', envdef=False, tcdef=False, std=0, inc=False,
                 optimize=False, optimize_size=False, lto=False, pic=False,
                 reentrant=False, asan=False, debug=False, dynamic=True,
                 stdlib=False, ext2=False,
                 ext=False, pch=False, warn_exit=0, warned=False, note='')
        rc, out = run(['/venv/bin/bfg9000', 'configure', bld,
                       '--no-resolve-packages', '--backend=make'] + args,
                      cwd=src, env=env)
        f['configure_exit'] = rc
        if rc != 0:
            f['note'] = out[-300:]
            return {'lang': lang, 'slots': slots, 'facts': f}
        benv = tool_env()
        rc, out = run(['make', 'prog'], cwd=bld, env=benv)
        objs = [os.path.join(dp, n) for dp, _, fns in os.walk(bld)
                for n in fns if n.startswith('probe') and n.endswith('.o')]
        f['compile_exit'] = 0 if objs else 1
        prog = os.path.join(bld, 'prog')
        f['link_exit'] = 0 if os.path.exists(prog) else 1
        if rc != 0:
            f['note'] = out[-400:]
        if objs:
            sec = subprocess.run(['readelf', '-S', objs[0]],
                                 capture_output=True, text=True).stdout
            f['lto'] = '.gnu.lto_' in sec
        if os.path.exists(prog):
            r = subprocess.run([prog], capture_output=True, text=True,
                               env={'PATH': '/usr/bin:/bin',
                                    'ASAN_OPTIONS': 'detect_leaks=0'})
            f['run_exit'] = r.returncode
            for line in r.stdout.splitlines():
                k, _, v = line.partition('=')
                if k == 'defval':
                    f['defval'] = v
                elif k == 'std':
                    f['std'] = int(v)
                elif k == 'ext':
                    f['ext'] = v == '7'
                elif k == 'ext2':
                    f['ext2'] = v == '5'
                elif k == 'stdlib':
                    f['stdlib'] = v == '1'
                elif k in f:
                    f[k] = True
            sec = subprocess.run(['readelf', '-S', prog],
                                 capture_output=True, text=True).stdout
            f['debug'] = '.debug_info' in sec
            dyn = subprocess.run(['readelf', '-d', prog],
                                 capture_output=True, text=True).stdout
            f['dynamic'] = 'NEEDED' in dyn
        if pch and f['pch']:
            # (a fully static link cannot produce the shared library)
            libs_ = ['libpchslib.a'] + (
                [] if any(x['o'] == 'static' for x in slots)
                else ['libpchlib.so'])
            rc, out = run(['make'] + libs_, cwd=bld, env=benv)
            if rc != 0:
                f['pch'] = False
                f['note'] = (f['note'] + ' library with pch: ' + out[-300:])
        rc, out = run(['make', 'warn.o'], cwd=bld, env=benv)
        f['warn_exit'] = rc
        f['warned'] = 'warning:' in out or 'error:' in out
        return {'lang': lang, 'slots': slots, 'facts': f}
    finally:
        shutil.rmtree(root, ignore_errors=True)


def main(argv):
    ck = Check('C16', argv)
    cfg = ('CONSTANTS Langs = {"c", "c++"} Pairs = %s\nSPECIFICATION Spec\n'
           'INVARIANT Emit\nCHECK_DEADLOCK FALSE\n')
    g = tlc_ok('Options_Gen', cfg % 'TRUE', timeout=1500)
    ck.add_model(g, 'Options_Gen: every slot and every pair of slots')
    cases = [p for p in g.prints if isinstance(p, dict) and 'slots' in p]
    singles = [c for c in cases if len(c['slots']) == 1]
    pairs = [c for c in cases if len(c['slots']) == 2]
    # unordered pairs only
    seen, upairs = set(), []
    for c in pairs:
        k = (c['lang'],) + tuple(sorted(json.dumps(s, sort_keys=True)
                                        for s in c['slots']))
        if k not in seen:
            seen.add(k)
            upairs.append(c)
    rnd = random.Random(ck.seed)
    rnd.shuffle(upairs)
    # directed: a library requested through the environment next to every
    # link-side option (libraries of the target's own, global ones, static)
    head = upairs[:(60 if ck.quick else 2500)]
    directed = [c for c in upairs[len(head):]
                if {s['o'] for s in c['slots']} & {'envlib'} and
                {s['where'] for s in c['slots']} & {'link', 'globallink'}]
    todo = singles + head + directed
    ck.note('space', {'singles': len(singles), 'unordered_pairs': len(upairs),
                      'executed': len(todo)})
    res = pmap(run_case, todo, jobs=14)
    traces = [{'id': i + 1, 'events': [{
        'lang': r['lang'],
        'slots': [dict(s, v=(s['v'] if r['lang'] == 'c' or s['o'] != 'std'
                             else CXXSTD[s['v']])) for s in r['slots']],
        'facts': {k: v for k, v in r['facts'].items() if k != 'note'}}]}
        for i, r in enumerate(res)]
    rej, st = validate_traces('Options_Trace', 'SPECIFICATION TraceSpec\n'
                              'CHECK_DEADLOCK FALSE\n', traces, chunk=200)
    ck.traces = len(traces)
    ck.evaluations = len(traces)
    ck.states += st['distinct']
    ck.transitions += st['generated']
    for tid, info in sorted(rej.items()):
        r = res[tid - 1]
        bad = info[2] if isinstance(info[2], list) else []
        names = sorted({'%s=%s' % (s['o'], s['v']) if isinstance(s, dict)
                        else str(s) for s in bad}) or \
            sorted('%s=%s' % (s['o'], s['v']) for s in r['slots'])
        if any(s['o'] == 'sanitize' for s in r['slots']) and \
                info[0] == 'LinkerAcceptsTheFlags':
            names = ['sanitize']
        if any(n.startswith('optimize=size') for n in names) and \
                info[0] in ('CompilerAcceptsTheFlags',
                            'LinkerAcceptsTheFlags'):
            names = ['optimize=size']
        ck.report('C16:%s:%s' % (info[0], '+'.join(names)),
                  '%s (%s): slots %s facts %s' % (
                      info[0], r['lang'], json.dumps(r['slots']),
                      json.dumps(r['facts'])[:700]), r)
    ck.sample(res[0])
    ck.sample(res[-1])
    ck.assumptions += [
        'gcc/g++ 12 as detected; entry_point, rpath and framework options '
        'are not probed; toolchain files take raw flags (checked for '
        'survival only)',
        'sanitize+static and two different values of one option are '
        'excluded as incompatible by the toolchain itself (Options.tla)']
    ck.finish(exhaustive=not ck.quick, rule='cases = every (option, value, '
              'placement) slot for C and C++ (exhaustive) and unordered '
              'pairs of slots (%s); non-trivial = all' %
              ('60 sampled' if ck.quick else 'up to 2500'),
              distinct_nontrivial=len(traces))
