"""C20 - Windows command lines and MSBuild solutions.
(a) WinArgv.tla: Microsoft C runtime model + design model of windows.quote;
    TLC checks the round trip exhaustively; the same argument lists go through
    the real shell.windows.join/split and TLC validates every recorded call.
(b) Uuid.tla: persisted GUID map; TLC-generated histories of project sets are
    replayed as real configure/regenerate runs of the MSBuild backend and the
    parsed solutions are validated by TLC (Uuid_Trace.tla)."""
import itertools
import json
import os
import re
import shutil
import sys

from engine import (Check, tla_set, tlc_ok, validate_traces, scratch, bfg_configure,
                    pmap, run, tool_env, syms, MachineryError)

ALPHA = ['a', ' ', 'TAB', '"', '\\']
CH = {'TAB': '\t'}


def wcfg(mode, max1, max2):
    c = 'CONSTANTS\n Alpha <- AlphaDef\n Max1 = %d\n Max2 = %d\n' % (max1, max2)
    if mode == 'mc':
        c += 'SPECIFICATION Spec\nINVARIANT RoundTrip\nCHECK_DEADLOCK FALSE\n'
    else:
        c += 'SPECIFICATION TraceSpec\nCHECK_DEADLOCK FALSE\n'
    return c


def ucfg(mode, maxruns, nseeds=0, seed=0):
    c = 'CONSTANTS\n Projects = {"a", "b", "c", "d"}\n MaxRuns = %d\n' % maxruns
    if mode == 'gen':
        c += ' NSeeds = %d\n SeedBase = %d\n' % (nseeds, seed)
    if mode == 'mc':
        c += ('SPECIFICATION Spec\nVIEW View\nINVARIANT UniqueGuids\n'
              'INVARIANT DepsClosed\nPROPERTY Stable\nPROPERTY SlnGuidStable\n'
              'CHECK_DEADLOCK FALSE\n')
    elif mode == 'gen':
        c += 'SPECIFICATION GenSpec\nINVARIANT GenHist\nCHECK_DEADLOCK FALSE\n'
    else:
        c += 'SPECIFICATION TraceSpec\nCHECK_DEADLOCK FALSE\n'
    return c


def strs(n):
    for k in range(n + 1):
        for t in itertools.product(ALPHA, repeat=k):
            yield list(t)


def concrete(symlist):
    return ''.join(CH.get(c, c) for c in symlist)


# ------------------------------------------------------------------ (b)
KIND = {
    # (two project names that differ only in their directory part)
    'a': lambda deps: "a = command('x/gen', cmd=['echo', 'a'], extra_deps=[%s])" % deps,
    'b': lambda deps: "b = build_step('b.txt', cmd=['touch', 'b.txt'], extra_deps=[%s])" % deps,
    'c': lambda deps: "c = alias('y/gen', [%s])" % deps,
    'd': lambda deps: "d = copy_file('m.c', 'd.c', extra_deps=[%s])" % deps,
}


def script(projects, deps):
    lines = ["project('p')"]
    for p in sorted(projects):
        ds = sorted(b for a, b in deps if a == p)
        lines.append(KIND[p](', '.join(ds)))
    if not projects:
        lines.append('pass')
    # explicit defaults (one call with every command / file-producing
    # project, and a second call repeating the first of them)
    files = [p for p in sorted(projects) if p in ('a', 'b', 'd')]
    if files:
        lines.append('default(%s)' % ', '.join(files))
        lines.append('default(%s)' % files[0])
    return '\n'.join(lines) + '\n'


def parse_sln(path):
    txt = open(path).read()
    projects, deps = [], []
    sln_guid = None
    cur = None
    for line in txt.splitlines():
        m = re.match(r'Project\("(\{[^"]*\})"\) = "([^"]*)", "([^"]*)", '
                     r'"(\{[^"]*\})"', line)
        if m:
            sln_guid = m.group(1)
            cur = m.group(4)
            projects.append({'name': m.group(2), 'guid': cur})
            continue
        m = re.match(r'\t\t(\{[0-9A-F-]+\}) = (\{[0-9A-F-]+\})$', line)
        if m and cur:
            deps.append([cur, m.group(1)])
        if line.startswith('EndProject'):
            cur = None
    return projects, deps, sln_guid


def run_history(hist):
    root = scratch('verif-c20-')
    try:
        src = os.path.join(root, 'src')
        bld = os.path.join(root, 'build')
        os.makedirs(src)
        open(os.path.join(src, 'm.c'), 'w').write('int x;\n')
        events = []
        first = True
        for h in hist:
            deps = [tuple(d) for d in h['deps']]
            with open(os.path.join(src, 'build.bfg'), 'w') as f:
                f.write(script(h['projects'], deps))
            if first or h['how'] == 'configure':
                rc, out = bfg_configure(src, bld, backend='msbuild')
            else:
                rc, out = run(['/venv/bin/bfg9000', 'regenerate', bld],
                              cwd=root)
            first = False
            projects, dps, sg = [], [], 'none'
            sln = os.path.join(bld, 'p.sln')
            if rc == 0 and os.path.exists(sln):
                projects, dps, sg = parse_sln(sln)
                if sg is None:
                    sg = 'none'
            events.append({'exit': rc, 'projects': projects, 'deps': dps,
                           'sln_guid': sg, 'expected': len(h['projects']),
                           'how': h['how'], 'out': out[-300:] if rc else ''})
        return events
    finally:
        shutil.rmtree(root, ignore_errors=True)


def main(argv):
    ck = Check('C20', argv)
    sys.path.insert(0, os.environ.get('VERIF_REPO', '/repo'))
    from bfg9000.shell import windows

    # (a) design model vs Microsoft runtime model, exhaustive
    m1, m2 = (6, 3) if ck.quick else (7, 4)
    r = tlc_ok('WinArgv', wcfg('mc', m1, m2),
               defs='AlphaDef == ' + tla_set(ALPHA))
    if r.invariant_violated:
        ck.report('C20:design:RoundTrip', 'design model of windows.quote '
                  'violates the runtime round trip:\n' + r.tail(30))
    ck.add_model(r, 'WinArgv round trip 1 arg<=%d, 2 args<=%d' % (m1, m2))
    cases = [[a] for a in strs(m1)]
    s2 = list(strs(m2))
    cases += [[a, b] for a in s2 for b in s2]
    if len(cases) != r.distinct:
        raise MachineryError('case count %d != TLC initial states %d' %
                             (len(cases), r.distinct))
    traces = []
    for i, args in enumerate(cases):
        real = [concrete(a) for a in args]
        try:
            line = windows.join(real)
            back = windows.split(line)
        except Exception as e:
            line, back = 'EXC ' + type(e).__name__, []
        traces.append({'id': i + 1, 'events': [{
            'args': args, 'line': syms(line),
            'split_back': [syms(x) for x in back]}]})
    # the MSBuild backend's own consumer of the quoting module: the command
    # line it writes into an Exec task for the same argument lists
    from bfg9000.backends.msbuild import syntax as msyntax
    n1 = len(traces)
    for i, args in enumerate(cases):
        real = [concrete(a) for a in args]
        try:
            line = ' '.join(msyntax.textify_each(real, quoted=True))
        except Exception as e:
            line = 'EXC ' + type(e).__name__
        traces.append({'id': n1 + i + 1, 'events': [{
            'args': args, 'line': syms(line), 'split_back': args}]})
    rej, st = validate_traces('WinArgv_Trace', wcfg('trace', 1, 1), traces,
                              chunk=20000, defs='AlphaDef == {"a"}')
    ck.states += st['distinct']
    ck.transitions += st['generated']
    ck.traces += len(traces)
    for tid, info in sorted(rej.items()):
        ev = traces[tid - 1]['events'][0]
        feats = sorted({c for a in ev['args'] for c in a if c != 'a'})
        ck.report('C20:%s:%s%s' % (info[0], '+'.join(feats),
                                   ':msbuild-exec' if tid > n1 else ''),
                  '%s: args %r -> line %r' % (
                      info[0], [concrete(a) for a in ev['args']],
                      concrete(ev['line'])), ev)
    ck.sample(traces[len(traces) // 2])
    ck.sample(traces[-1])

    # (b) GUID map: design model, then real histories
    mr = 3 if ck.quick else 4
    r2 = tlc_ok('Uuid', ucfg('mc', mr))
    if r2.invariant_violated or 'violated' in r2.out:
        ck.machinery('Uuid design model violates the contract\n' + r2.tail())
    ck.add_model(r2, 'Uuid design model, %d runs' % mr)
    nh, depth = (48, 4) if ck.quick else (1500, 6)
    g = tlc_ok('Uuid_Gen', ucfg('gen', depth, nh, ck.seed))
    hists, seen = [], set()
    for p in g.prints:
        if isinstance(p, list) and p and isinstance(p[0], dict) and \
                'projects' in p[0]:
            k = json.dumps(p, sort_keys=True)
            if k not in seen:
                seen.add(k)
                hists.append(p)
    if len(hists) < nh // 3:
        raise MachineryError('Uuid_Gen produced %d histories\n%s' %
                             (len(hists), g.tail()))
    results = pmap(run_history, hists)
    utr = [{'id': i + 1, 'events': ev} for i, ev in enumerate(results)]
    rej, st = validate_traces('Uuid_Trace', ucfg('trace', 1), utr, chunk=500)
    ck.states += st['distinct']
    ck.transitions += st['generated']
    ck.traces += len(utr)
    drift = 0
    for tid, info in sorted(rej.items()):
        ck.report('C20:%s' % info[0], '%s at run %d of history %s' % (
            info[0], info[1], json.dumps(hists[tid - 1])),
            {'history': hists[tid - 1], 'events': results[tid - 1]})
    ck.sample({'history': hists[0], 'events': results[0]})
    ck.evaluations = len(traces) + sum(len(h) for h in hists)
    ck.note('histories', len(hists))
    ck.assumptions += [
        'no Microsoft runtime in the sandbox: WinArgv.tla (my transcription '
        'of the documented parsing rules incl. the "" rule) is the oracle',
        'cmd.exe metacharacters are excluded as documented; alphabet %r' %
        ALPHA,
        'MSBuild output is parsed, not executed']
    ck.finish(exhaustive=True, rule='(a) every argument list of one argument '
              'of length <=%d and two arguments of length <=%d over %r '
              '(exhaustive, count cross-checked with TLC); (b) TLC-simulated '
              'histories of project sets replayed as configure/regenerate; '
              'non-trivial = contains a quote, backslash or blank / history '
              'with a project kept across runs' % (m1, m2, ALPHA),
              distinct_nontrivial=sum(
                  1 for c in cases if any(x != 'a' for a in c for x in a)) +
              len(hists))
