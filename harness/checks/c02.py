"""C02 - Ninja backend delivers every argument unchanged.  Same contract and
driver as C01 (argpipe.py, MakeArgs_Trace.tla); design model NinjaArgs.tla;
the manifest is evaluated by the reference Ninja (harness/ninja_ref.py), which
is cross-checked against NinjaLang.tla on every recorded build statement."""
import os

from engine import BIN
from checks import c01


def main(argv):
    c01.main(argv, backend='ninja', pid='C02',
             ninja=os.path.join(BIN, 'ninja'))
