#!/usr/bin/env python3
"""Regenerates /verif/MANIFEST.json from the table below (single source)."""
import json
import os

VERIF = os.path.dirname(os.path.dirname(os.path.abspath(__file__)))

CHECKS = {
 'C12': dict(
  technique='TLA+ reference algebra (Paths.tla) model-checked with TLC for the algebraic laws; '
            'TLC-generated operation sequences replayed into the real PosixPath/WindowsPath; '
            'recorded traces validated by TLC (Paths_Trace.tla)',
  text='TLC exhaustively checks the laws (normal form, parent/append, relpath/append, common prefix) on the '
       'reference algebra for all raw strings up to a bound; every constructor call up to 3-4 components and '
       'thousands of TLC-simulated operation sequences are executed on both platform flavours and three '
       'separator styles, and TLC decides for each recorded call whether the observed value is the one the '
       'reference assigns. Model checking plus trace validation is the right level for a pure sequential '
       'object: the space is small enough to enumerate and the oracle is an independent specification.',
  note='trusted: the lexical-normalisation reference in Paths.tla (my reading of the property), TLC, the '
       'projection function in harness/checks/c12.py; "//x", "~" and discretionary rejections are not generated',
  design='5/C12'),
 'C05': dict(
  technique='TLA+ contract + design model of default object naming (ObjNames.tla) checked with TLC; '
            'TLC-generated projects configured (and partly built/cleaned) with the real bfg9000; outcomes '
            'validated by TLC against the contract (ObjNames_Trace.tla)',
  text='TLC proves injectivity/containment of the design model of within_directory + default_name for every pair '
       'of sources within the bound (and, as a vacuity guard, finds the collision in the pre-fix pattern); hundreds '
       'to thousands of TLC-generated projects (neighbouring sources, submodule depth 0-2, ../ references, five '
       'target kinds, intermediate_dirs on/off) go through the real configure, a subset through make and make clean, '
       'and TLC decides each recorded outcome: distinct sources -> configure succeeds with distinct outputs inside '
       'the build directory, extension-only clashes and duplicates -> configure fails, source tree unchanged. A soak over '
       'Lifecycle.tla (random walks of configure / edit / build / regenerate / clean / dist / install / uninstall / move, '
       'real gcc) is validated by stepping the Lifecycle actions: the source tree only ever changes by the user\'s own '
       'edits, nothing appears outside the build directory and DESTDIR, a build after a build does nothing, products '
       'exist and run.',
  note='trusted: the contract in ObjNames_Trace.tla, compile_commands.json as the observation of object paths, '
       'TLC; name alphabet is small (one/two-character names, dotted names); literal PAR excluded',
  design='5/C05'),
 'C20': dict(
  technique='TLA+ model of the Microsoft C runtime argv rules + design model of windows.quote (WinArgv.tla) and of '
            'the persisted GUID map (Uuid.tla) checked with TLC; real join/split calls and real MSBuild-backend '
            'configure/regenerate histories validated by TLC (WinArgv_Trace.tla, Uuid_Trace.tla)',
  text='Exhaustive within the bound on both sides: TLC checks CrtArgs(Join(args)) = args on the design model for '
       'every argument list up to the bound, the identical lists are pushed through the real shell.windows.join and '
       'split, and TLC validates each recorded line with the runtime model. For solutions TLC checks uniqueness, '
       'closure and stability on the design model of .bfg_uuid and validates parsed .sln files of TLC-generated '
       'histories of real configure/regenerate runs.',
  note='trusted: WinArgv.tla as transcription of the documented MS runtime rules (no Windows here), the .sln parser '
       'in harness/checks/c20.py, TLC; MSBuild projects are parsed, never built',
  design='5/C20'),
 'C01': dict(
  technique='TLA+ design model of the quoting pipeline (Quote.tla -> MakeLang.tla -> ShLang.tla, composed in '
            'MakeArgs.tla) model-checked with TLC; generated build scripts run through the real bfg9000, GNU Make '
            'and /bin/sh with recording stubs; recorded executions validated by TLC (MakeArgs_Trace.tla)',
  text='TLC checks exhaustively (all words up to the bound over 36 symbols, three Makefile contexts: recipe, plain '
       'assignment, target-specific assignment) that bfg9000\'s quoting composed with models of Make and sh delivers '
       'the word unchanged, with a vacuity guard (the pre-fix writer must fail on "#" and "\\;"). The same kind of '
       'words are placed in 17 argument positions of generated scripts, built with the real tools, and TLC validates '
       'for every declared slot that the started process received exactly the declared words (test-driver arguments '
       'must split, by the sh model, into the child words); the sh model is cross-checked against the command lines '
       'real Make handed to the shell.',
  note='trusted: recording stubs (harness/stubs/rec.c), ShLang.tla for nested driver arguments (cross-checked '
       'against dash), TLC; a failing slot is re-run alone before it is reported',
  design='5/C01'),
 'C02': dict(
  technique='TLA+ design model (Quote.tla -> NinjaLang.tla -> ShLang.tla in NinjaArgs.tla) model-checked with TLC; '
            'generated scripts configured with the real Ninja backend, evaluated by the reference Ninja '
            '(harness/ninja_ref.py, cross-checked against NinjaLang.tla) and run by /bin/sh; recorded executions '
            'validated by TLC (MakeArgs_Trace.tla)',
  text='Same contract and slot matrix as C01 with the Ninja backend: exhaustive design check of quoting + Ninja value '
       'evaluation + sh, and trace validation of every declared slot against what the started process received.',
  note='trusted: no ninja binary exists in the sandbox, so the Ninja semantics are my reading of the manual encoded '
       'in NinjaLang.tla and implemented by harness/ninja_ref.py (the two are compared on every recorded cmd binding); '
       'recording stubs; TLC',
  design='5/C02'),
 'C11': dict(
  technique='TLA+ reference semantics of the documented glob language + design model of glob.py (Glob.tla); TLC '
            'checks design = reference exhaustively on small trees (Glob_MC.tla); TLC-generated (tree, filter) cases '
            '(Glob_Gen.tla) run through the real find_paths inside a real configure; TLC evaluates the reference on '
            'every recorded call (Glob_Trace.tla)',
  text='The documented semantics are written once as a declarative set comprehension in TLA+; TLC is the oracle for '
       'every real call (first call, cached call, cache=False call, distribution list) over hundreds to thousands of '
       'generated trees and filters incl. multi-pattern lists, several ** runs, extra/exclude/type combinations and '
       'names with dots, blanks and glob metacharacters; separately TLC shows that a model of the three-valued '
       'matcher with directory pruning equals the reference on all small trees.',
  note='trusted: Glob.tla as my reading of doc/reference/builtins.md (exclude is applied strictly below the literal '
       'base; extras are required only for siblings of selected entries), TLC; symlinked directories and '
       'filter_by_platform are not generated',
  design='5/C11'),
 'C08': dict(
  technique='TLA+ design model of the regeneration state machine (Regen.tla: tree with directory mtimes, persistent '
            'files, one action per file-system mutation, backend rule); TLC enumerates every history of the model up '
            'to a bound with its predicted outcome (Regen_Gen.tla); histories replayed with real edits, real make / '
            'reference ninja and the real bfg9000; each run compared with a fresh configure and validated by TLC '
            'against the contract (Regen_Trace.tla)',
  text='Every behaviour of the design model within the bound (all interleavings of add/remove/mkdir/rmdir/script edits '
       'and runs of the regeneration step) is executed on a real project, plus seeded histories over six richer '
       'project variants (recursive globs with extra/exclude, header_directory(include=), submodule + options.bfg, '
       'pkg_config, missing base directory) and both backends; TLC decides for every run: success implies build files '
       'equal to a fresh configure, valid edits never make regeneration fail, and a second run regenerates nothing.',
  note='trusted: fresh configure into the same path as the oracle, stub compilers, tick barrier (no equal timestamps), '
       'reference ninja for the Ninja backend; design-model/real disagreement is reported as spec_drift only',
  design='5/C08'),
 'C10': dict(
  technique='TLA+ design model with a Crash action between any two file-system mutations (Regen.tla; constants '
            'Backend and AtomicMk model what Make / Ninja do with a truncated build file and how it is written) model-checked '
            'with TLC, with vacuity guards for the pinned algorithm and the pinned truncating Ninja writer; recorded mutation '
            'orders checked to be behaviours of Regen.tla (Regen_Conf.tla); fault enumeration on the real code at every mutation point recorded by an interposition shim '
            '(kill / ENOSPC), two follow-up attempts; histories validated by TLC (Regen_Trace.tla)',
  text='TLC enumerates all crash points of the design model and names the windows that end in a silent stale success; '
       'on the real code every mutation point (both sides of every open/close/remove/utime/makedirs below the build '
       'directory) of a real `regenerate --lazy` started by make / reference ninja is used once as a kill point and, '
       'where a call follows, as an ENOSPC point, over scenarios with find_files, pkg-config immediates and '
       'install/test rules; each of the two following attempts must either fail visibly or leave the build file and '
       'declared outputs equal to a fresh configure; a raising script must leave the build file byte-identical. Both '
       'backends are part of the quick tier.',
  note='trusted: the shim (harness/shim/sitecustomize.py, Python-level interposition: a kill is os._exit at a numbered '
       'point, buffered data is lost), fresh configure as the oracle, stub compilers, reference ninja',
  design='5/C10'),
 'C03': dict(
  technique='TLA+ specification of abstract build scripts and the graph they describe (Script.tla); TLC-generated '
            'scripts (Script_Gen.tla) become real projects built by real make / reference ninja with stub tools; '
            'build/touch histories validated by TLC against the described graph (Graph_Trace.tla)',
  text='The expected set of steps and of compiled objects for every build request is computed by TLC from the script '
       'alone (downstream closure incl. libraries forwarded by static libraries, generated sources, generated headers '
       'passed as includes, two-output steps, always_outdated steps, commands, aliases, default()/install()/test() '
       'rules for the default and tests goals); the real build tool must run every out-of-date step and no up-to-date '
       'one, from clean, on a no-op rebuild, and after touching each input file and each intermediate output, on both '
       'backends.',
  note='trusted: Script.tla as the meaning of a script (a static library may but need not be rebuilt when its libs= '
       'change), stub compilers that rewrite their outputs, mtime observation of outputs, reference ninja, TLC',
  design='5/C03'),
 'C06': dict(
  technique='TLC-generated scripts (Script_Gen.tla) configured for both backends; per-step program/argv/cwd/env '
            'recorded through stub tools, buildable targets and compile_commands.json extracted, identical '
            'touch/rebuild histories run on both; TLC validates agreement modulo the allow-list written in '
            'Backends_Trace.tla',
  text='For every generated script under four configure-time configurations TLC checks: same buildable targets, same '
       'program/arguments/cwd/environment for every step up to the explicit allow-list of documented backend-specific '
       'additions, compile_commands.json entries equal to the executed compile commands, and the same set of steps '
       'run for the same request after the same history (dependency relation).',
  note='trusted: the allow-list in Backends_Trace.tla, stub tools, reference ninja as the Ninja semantics, make -qp '
       'as the list of Make targets',
  design='5/C06'),
 'C09': dict(
  technique='TLA+ model of EnvVarDict (EnvVars.tla) model-checked with TLC and bound by replaying TLC-generated '
            'operation sequences on the real class with trace validation; save/load round trips incl. down-converted '
            'older formats and end-to-end configure/regenerate/env/run histories validated by TLC (Config_Trace.tla); '
            'the invariant is additionally shown inductive (any number of operations) with Apalache (EnvVars_Ind.tla)',
  text='TLC proves Apply(changes, initial) = current on all operation sequences up to the bound of the design model '
       'and validates thousands of recorded operation sequences of the real class against dict semantics and that '
       'invariant; every format version 7..17 is produced by inverting the upgrade steps and must load to an equal '
       'configuration; real configure runs with toolchain files are followed by regenerate / regenerate --lazy / env '
       '/ run under perturbed ambient environments, working directories and build-directory spellings, and must show '
       'byte-identical outputs and the saved variables.',
  note='trusted: the down-converter in harness/checks/c09.py (inverse of the documented upgrade steps), stub compiler, '
       'TLC, Apalache/z3; mopack is not exercised',
  design='5/C09'),
 'C13': dict(
  technique='TLC enumerates the invocation-context space (Determ_Gen.tla) and generates projects (Script_Gen.tla); '
            'the real bfg9000 configures each project once per context; TLC validates the digests against the '
            'determinism contract (Determ_Trace.tla)',
  text='Every project (generated script + a trailer with a dual-use library passed to default/install/pkg_config, '
       'find_files with extra, global options) is configured under every context of the TLC-enumerated product hash '
       'seed x invoking directory x relative/absolute build directory x unrelated environment variables; TLC checks '
       'byte-identical Makefile/build.ninja/compile_commands.json/.pc files and set-equal auxiliary files. The TLA+ '
       'content is small by nature; the assurance rests on the real executions.',
  note='trusted: sha1 digests, the projection of auxiliary files to entry sets, stub compilers; pid and time vary '
       'naturally and are not controlled',
  design='5/C13'),
 'C18': dict(
  technique='TLC-generated scripts (Script_Gen.tla); the set of files a script names is computed by TLC from '
            'Script.tla (Dist_Trace.tla); real configure, real make dist (doppel), tar listing, build-file scan, '
            'unpack and re-configure',
  text='For every generated project TLC checks that the real archive contains every file the abstract script names '
       '(sources, files named in custom commands, copied files) plus the fixed trailer\'s files (listed header, '
       'header_directory(include=) matches, find_files results incl. extra / filter_by_platform / cache=False, '
       'extra_dist, submodule script, options.bfg), that dist=False files are absent, that nothing outside the '
       'source tree is included, that every source-dir path the Makefile mentions is a member, and that the unpacked '
       'archive configures to the same Makefile.',
  note='trusted: tar listing of the doppel archive, regex scan of $(srcdir)/ paths, Script.tla; only #included '
       'headers are not required',
  design='5/C18'),
 'C19': dict(
  technique='TLA+ state machine over the stack of executing scripts with the documented path resolution (Scope.tla); '
            'TLC-generated trees of submodule scripts and argument spellings (Scope_Gen.tla); the scripts print '
            'probe events while the real bfg9000 executes them; traces validated by TLC (Scope_Trace.tla)',
  text='The generated scripts themselves log Enter/Export/Probe/Resolve/Return/Caught/Args events during real '
       'configure (two argument spellings) and regenerate runs; TLC replays the stack discipline and checks that '
       'exports reach exactly the caller, variables of any other script are invisible, every input path resolves '
       'against the script\'s source directory and every output path (executable, static library, object file, '
       'build_step with one and two outputs, copy_file) against the matching build subdirectory at depth up to 3 '
       'with ../ references and caught submodule failures, and that plain and --x- spellings and regeneration see '
       'the same argument namespace.',
  note='trusted: the probe code embedded in the generated scripts, Scope.tla as the documented resolution rule; '
       'output leaf names are not compared',
  design='5/C19'),
 'C17': dict(
  technique='TLA+ reference semantics of version specifier sets + design model of simplify_specifiers (Specs.tla) '
            'model-checked with TLC over every set within the bound; the same sets run through the real function and '
            'through pkg_config(requires=) + the real pkg-config with a fake dependency at every test version; '
            'generated .pc files queried with the real pkg-config and the output split by the TLA+ model '
            'PkgConfLang.tla; all recorded results validated by TLC (PkgConfig_Trace.tla)',
  text='Exhaustive on the version side (all 988 sets of <= 3 specifiers over 6 operators x 3 versions, acceptance '
       'tested at 7 points incl. the gaps): TLC shows where the design model of simplify_specifiers leaves the '
       'reference and decides for the real function raised-iff-unsatisfiable and same accepted versions; Requires '
       'lines are evaluated by the real pkg-config against a fake dependency at each version. On the text side options, '
       'link options and include directories over the hot alphabet must come back, after sh-style splitting, as '
       'exactly the declared flags from both the installed and the -uninstalled file (incl. a prefix and a source '
       'directory with #). Further: requires_private, the same package in the public and private list, conflicts= '
       '(refused versions), auto_fill unset/False/True x includes and libs unset/empty/given (undeclared flags must '
       'be absent), and a second bfg9000 project that uses the generated package through package() with the real gcc '
       '(static with a transitive static dependency, shared, dual) and must configure, build and run.',
  note='trusted: PkgConfLang.tla (sh-style splitting of pkg-config output), pkgconf 1.8.1 as the tool, a stand-in '
       'for the unusable mopack (harness/stubs/mopack-stub: says the package is a pkg-config package), the version '
       'grid (integers and halves); non-ASCII bytes are not generated (pkg-config escapes them bytewise)',
  design='5/C17'),
 'C14': dict(
  technique='TLA+ design model of library forwarding + de-duplication (constant KeepFirst: the repaired keep-last rule must have no failing configuration, the pinned keep-first rule is the vacuity guard) composed with an environment model of '
            'a single-pass archive linker (Link.tla), model-checked with TLC over every DAG within the bound; '
            'TLC-generated DAGs (Link_Gen.tla) built with the real bfg9000, make, gcc, ar, ld and run through the real '
            'loader, before and after moving the build directory; traces validated by TLC (Link_Trace.tla)',
  text='TLC enumerates all DAGs of three two-object libraries (static/shared, any declared dependencies, any listing '
       'order of the executable, either object called) and reports exactly the configurations whose final link the '
       'design model predicts to fail; generated DAGs (incl. dual-use libraries under three library modes, nested '
       'different output directories, link options to be forwarded) are built with the real toolchain, the program '
       'must print the value the DAG defines, in place with an empty environment and again after the build '
       'directory was renamed. Five directory layouts (prefix-named sibling directories, nesting, the build root), '
       'directed all-shared chains per layout and whole_archive() cases (a shared library made of two whole archives, '
       'every object kept) are part of both tiers.',
  note='trusted: the single-pass linker model (used for the design-level prediction and the known-finding key '
       'only; the verdict comes from the real ld), gcc/ld/loader of the sandbox, TLC',
  design='5/C14'),
 'C15': dict(
  technique='TLA+ specification of the install-directory defaults, kind -> directory mapping and DESTDIR realisation '
            '(Install.tla); TLC-generated configurations (Install_Gen.tla) run through real configure, gcc build, '
            'make install DESTDIR=..., tree snapshots, patchelf read-back and make uninstall; validated by TLC '
            '(Install_Trace.tla)',
  text='For every generated combination of installables (executable with shared and static dependencies, versioned '
       'shared library, static library, header, header directory with an include pattern, man page, data file with '
       'an explicit install Path, pkg-config file), directory= arguments, seven install-directory options (paths '
       'with spaces) and DESTDIR values (spaces, "$"), TLC computes the expected staged tree from the path objects '
       'install() returned plus the run-time dependency closure and checks: every returned path lies under the '
       'configured directory of its kind, the staged tree equals the expected set exactly, the installed '
       'executable\'s rpath names the installed library directory and no build directory, nothing outside DESTDIR '
       'changed, and uninstall leaves no file.',
  note='trusted: Install.tla default chain (prefix -> exec_prefix -> bindir ...), the convention that a run-time '
       'dependency is staged at libdir + its build-relative path, real doppel/patchelf/gcc',
  design='5/C15'),
 'C16': dict(
  technique='TLA+ effect predicates per semantic option over a probe record and an incompatibility relation '
            '(Options.tla); TLC enumerates the option x value x placement space, singles and pairs '
            '(Options_Gen.tla); one real project per case built with the detected gcc/g++, probe output and '
            'readelf facts validated by TLC (Options_Trace.tla)',
  text='Every (option, value, placement) slot for C and C++ and a sample (thorough: up to 2500) of unordered pairs is '
       'built with the real compiler; TLC requires configure, compile, link and run to succeed and every option of '
       'the case to have its documented effect on the measured facts (macro value, language standard, include found, '
       'system include incl. a compiler-default directory, warnings / warnings-as-errors, debug section, '
       '__OPTIMIZE__ / __OPTIMIZE_SIZE__ / LTO section, PIC, _REENTRANT, ASan, static linking, external library '
       'resolved, precompiled header applied, flags from CFLAGS and from a toolchain file). The TLA+ content is '
       'thin by nature (a covering space and predicates); the truth is the real compiler\'s.',
  note='trusted: the probe program and readelf parsing in harness/checks/c16.py, gcc 12 of the sandbox; entry_point, '
       'rpath and Windows/macOS options are not probed',
  design='5/C16'),
 'C07': dict(
  technique='TLA+ model of sources, headers, a mutable include relation and per-object fingerprints (Incr.tla); '
            'TLC-generated edit/build histories (Incr_Gen.tla) replayed on real files with the real bfg9000, make / '
            'reference ninja, gcc behind a logging wrapper and the real depfixer; every recorded step is validated '
            'by stepping Incr.tla itself (Incr_Trace.tla)',
  text='The trace specification re-uses the actions of Incr.tla: edits are replayed through the model, and for every '
       'real build TLC compares the set of sources gcc was really asked to compile with the set of stale objects of '
       'the model (exactly the objects whose source or transitive include closure changed), the program output with '
       'the model\'s total, and requires the build to proceed, also after a no-longer-included header was deleted, '
       'after clean, and on a no-op rebuild; header names contain blanks and Make-special characters as far as a '
       'hand-written Makefile can consume gcc\'s own depfile for them.',
  note='trusted: Incr.tla, the gcc logging wrapper, the reference-Makefile scope test (excluded names are listed in '
       'the evidence), tick barrier, reference ninja for the Ninja backend',
  design='5/C07'),
 'C04': dict(
  technique='TLA+ predicate of the name classes the property excludes per backend (Names.tla) and contract on recorded '
            'cycles (Names_Trace.tla, validated by TLC); one real project per (name, role, backend) run through '
            'configure / build / rebuild / touch / clean with real GNU Make and the reference ninja; scope established '
            'at run time by a hand-written reference build file',
  text='For every ASCII punctuation character and blank in three positions of a name, sampled two-character '
       'combinations and random names, in five roles (source file, output name, source sub-directory, output '
       'directory, copied file) and both backends, TLC checks the four observations of the property (created at '
       'exactly that path, up to date afterwards, change of the named prerequisite noticed, clean removes it) for '
       'every name that is in scope; in scope = a reference Makefile / manifest written by an independent reference '
       'escaper completes the same cycle and Names.tla does not exclude the class. The TLA+ part is the contract and '
       'the scope predicate; a design model of the target/dependency escape tables is not yet part of this check.',
  note='trusted: the reference escaper (harness/checks/c04.py mk_escape / nj_escape) as the definition of '
       '"representable", stub compilers, mtime observation, reference ninja',
  design='5/C04'),
}

NOT_YET = {}


# what rounds 2 and 3 of the seeded changes added to each check (appended to the text above)
LATER = {
 'C01': 'Also: a string-form compound command with environment=, and words on which the real quoting functions '
        'drift from Quote.tla (Escape_Trace.tla) as directed words at every position. Rounds 4-5: string-form options written bare / double-quoted / single-quoted; an argument inside $CC (tool_word); the link text of a symbolic-link copy with description= (sym_arg).',
 'C02': 'Also: a string-form compound command with environment=, and drift-directed words as for C01. Rounds 4-5: as C01 (tool_word, sym_arg, quoting styles).',
 'C03': 'Scripts also contain implicit precompiled-header steps next to generated headers, extra_deps=, explicitly '
        'passed header files and tests whose command names further built files. Rounds 4-5: always-outdated steps with one and two outputs; copies and symbolic links of built files (a link need not be re-made, its consumers are out of date like the file\'s); extra_deps on copies.',
 'C04': 'Roles also cover the name as an install / uninstall argument (executable, header). The seven escape functions '
        'of the writers are compared with Quote.tla on all short words (Escape_Trace.tla); drifting inputs become names. Rounds 4-5: roles depfile (object name) and header (header name, deleted once unused); % names are in scope.',
 'C05': 'Targets in sub-directories (within_directory with non-empty target directory), sources sharing the tail of the '
        'target directory, names and stems with blank, # and $. Rounds 4-5: prefix-sibling references (../sub2 next to 2/); one output named by two steps of ten kinds must be rejected on both backends.',
 'C06': 'Every script carries global compile, link and static-link options, which meet the flags from the environment. Rounds 4-5: steps with environments (compound string, several lines, list form); a copy with extra_deps through a recording copy tool.',
 'C07': 'A precompiled-header mode (Incr.tla constant Pch), a second source under paths with blank / # / $, and one '
        'directed include-build-drop-delete-recreate history per in-scope header name and backend. Rounds 4-5: a project with 70/150 sources (clean leaves nothing, rebuild recreates everything, a common header change recompiles every object); header names with several %.',
 'C08': 'Variants include a tree of submodules (every script and options.bfg edited), and directed two-step histories '
        'in which a first change must not disable the detection of the second. Rounds 4-5: searched directory removed / renamed; the script stops searching and gains a submodule; the known dist-order difference is a SOFT rejection (the rest of the history is still validated).',
 'C09': 'Half of the end-to-end histories name the compiler by a bare command name resolved through the configure-time '
        'PATH (C++ compiler guessed as its sibling) and run later steps with a PATH without compilers. Rounds 4-5: cross-compilation target without default prefix in the round trips; system_executable looked up on the configure-time PATH.',
 'C11': 'Every second leaf directory is a symbolic link to a populated directory outside the tree; every second case '
        'first uses the same filter with dist=False. Rounds 4-5: the literal base directory of a pattern may itself be a symbolic link.',
 'C12': 'All ordered triples of nine related locations for commonprefix / uniquetrees.',
 'C13': 'The trailer uses every builtin that makes a file object (zoo.py), a step with outputs in several directories, '
        'a relative -I in the configured CPPFLAGS; one project per backend is configured with the real gcc. Rounds 4-5: system_executable; regeneration of the saved configuration under another PATH.',
 'C15': 'A versioned shared library reached only through another shared library is part of the run-time closure; the '
        'installed program is started with the build directory moved away; documented leaf placement per kind; every '
        'configured directory is relocated below the scratch directory. Rounds 4-5: run-time search path of every installed shared object.',
 'C16': 'The library option also takes pre-built library files (six names, a decoy beside the shared ones); the pch '
        'option also covers shared and static libraries. Rounds 4-5: include directory also listed in the configure-time CPATH.',
 'C18': 'The trailer uses every builtin that makes a file object out of a source-tree file (zoo.py); after the first '
        'archive single tree changes (extra_dist directory, extra file, find_files match) must reach the next archive. Rounds 4-5: an optional submodule whose script raises; bzip2 and zip archives have the same members as the gzip one.',
 'C19': 'Project arguments whose names start with x (x11, xml) with the --x- spelling. Rounds 4-5: declarations with an alias name.',
 'C10': 'Rounds 4-5: an existing build directory configured again with other settings and interrupted at every mutation point '
        '(followed by make and an explicit regenerate); seven ways in which a script gives up.',
 'C14': 'Rounds 4-5: a second consumer at another depth; two whole archives in one link; diamonds over four libraries.',
 'C17': 'Rounds 4-5: a requirement that comes with a package of the library next to an explicit one (auto_fill=True).',
 'C20': 'MSBuild histories use several explicit defaults. Rounds 4-5: project names differing only in their directory part.',
}


ROUND6 = {
 'C01': "Round 6: a library built on a program's behalf receives nothing of the program's options (dep_link); symbolic-link copies of generated files (symgen_arg).",
 'C02': 'Round 6: as C01 (dep_link, symgen_arg).',
 'C03': 'Round 6: extra_compile_deps= (field cdeps: every object of the target).',
 'C04': 'Round 6: role finddir (a directory searched by find_files: a new file is picked up, the removed directory does not block the build).',
 'C05': 'Round 6: the same source sets as inputs of generated_sources for moc / lex / yacc / rcc / uic.',
 'C06': 'Round 6: several commands of one step share a shell (cd, shell variable).',
 'C07': 'Round 6: every second project has a generator step with two outputs (source + header).',
 'C08': "Round 6: a search with a filter function of the script's own next to a cacheable one.",
 'C10': 'Round 6: the first configure into a new build directory interrupted at every mutation point (both backends).',
 'C11': 'Round 6: directories matched by extra= are distributed.',
 'C13': 'Round 6: every second project is configured with a toolchain file (install dirs overridden on the command line, a variable extended).',
 'C16': 'Round 6: a library requested through LDLIBS / LDFLAGS next to every link-side option.',
 'C17': 'Round 6: auto_fill with a library that is first the install dependency of another.',
 'C19': 'Round 6: submodule directories named by sibling rank (the same string in different directories).',
}


ROUND7 = {
 'C01': 'Round 7: the same words in two global_options calls (gopt_rep); a shared library made only of a whole archive (wa_link).',
 'C02': 'Round 7: as C01 (gopt_rep, wa_link).',
 'C03': 'Round 7: dual-use libraries (kind dlib: one set of objects, shared and archive half; default()/install() ask for both) and a pre-built source-tree library consumed by link steps (vlib).',
 'C06': 'Round 7: scripts with dual-use libraries and a pre-built library file.',
 'C07': 'Round 7: recursively searched header_directory; a deleted header takes its empty directory with it.',
 'C08': 'Round 7: a change only the extra= side of a search sees; header_directory / directory with dist=False feeding install rules.',
 'C09': 'Round 7: later invocations under another machine personality (setarch), cross target in the toolchain file, saved platforms compared; a build tool that is not GNU Make at configure time.',
 'C12': 'Round 7: install roots given relative to other install roots (chained base directories).',
 'C13': 'Round 7: version ranges in Conflicts / Requires of generated .pc files; scripts with dual-use libraries.',
 'C14': 'Round 7: a whole archive next to the same archive forwarded plain.',
 'C18': 'Round 7: a vendored header directory searched like a system directory; scripts with a pre-built library file.',
 'C19': 'Round 7: a value given, overridden and given again on the command line.',
}


ROUND8 = {
 'C01': 'Round 8: a program declared after one without libraries still gets its library; a slot failing only next to other steps is reported.',
 'C02': 'Round 8: as C01.',
 'C03': 'Round 8: multi-line cmds= with a leading string line; test_deps() (kind tdeps).',
 'C05': 'Round 8: one of several outputs of a step named again.',
 'C06': 'Round 8: test_deps(); the directed scripts of C03 on both backends.',
 'C07': 'Round 8: one header name in two include directories (the first copy renamed away / deleted).',
 'C13': 'Round 8: invoking directory reached through a symbolic link with $PWD carrying that spelling.',
 'C18': 'Round 8: dist=False file objects named by steps stay out of the archive.',
 'C19': 'Round 8: objects of a program with an explicit intermediate_dir= in a submodule.',
 'C04': 'Round 8: role rootobj (object directly in the build directory, real linker); leading-dash findings identified by role.',
 'C12': 'Round 8: path component beginning with two dots.',
 'C15': 'Round 8: a dual-use library passed to install().',
 'C16': 'Round 8: two-word -D spelling in both CPPFLAGS and CFLAGS.',
 'C17': 'Round 8: build directory configured before with a longer description of the package.',
 'C20': 'Round 8: command lines of the MSBuild Exec task for every argument list.',
}


def main():
    props = [json.loads(l) for l in open(os.path.join(VERIF, 'properties.jsonl'))]
    checks = []
    na = []
    for p in props:
        pid = p['id']
        if pid in CHECKS:
            c = CHECKS[pid]
            checks.append({
                'property_id': pid,
                'quick_cmd': './check %s --tier quick' % pid,
                'thorough_cmd': './check %s --tier thorough' % pid,
                'evidence_file': '/verif/evidence/%s.json' % pid,
                'replay_cmd_template': './check %s --replay {path}' % pid,
                'engine': 'tlc+harness',
                'level_claimed': {'category': 'model_checking',
                                  'text': c['text'] + (' ' + LATER[pid] if pid in LATER else '') +
                                          (' ' + ROUND6[pid] if pid in ROUND6 else '') +
                                          (' ' + ROUND7[pid] if pid in ROUND7 else '') +
                                          (' ' + ROUND8[pid] if pid in ROUND8 else ''),
                                  'design_ref': 'DESIGN.md section ' + c['design']},
                'level_note': c['note'],
                'technique': c['technique'],
            })
        else:
            na.append({'property_id': pid,
                       'reason': NOT_YET.get(pid, 'check not built yet in this round (planned: see DESIGN.md section 5); nothing is claimed')})
    m = {
        'version': 1,
        'setup_cmd': 'make -C /verif/harness setup',
        'hooks': {
            'guard': 'BFG9000_VERIF',
            'enable': 'BFG9000_VERIF=1 with PYTHONPATH=/verif/harness/shim (sitecustomize-level interception of '
                      'file-system calls; no source patch in /repo)',
            'baseline_off_cmd': 'cd /repo && /venv/bin/python -m pytest -ra -q -p no:cacheprovider --timeout=900 '
                                '--continue-on-collection-errors',
            'source_commits': [],
            'add_only': True,
        },
        'engines': [{'name': 'tlc+harness', 'path': '/verif/check',
                     'serves_properties': sorted(CHECKS),
                     'kind_free_text': 'TLA+ specifications in /verif/spec checked with TLC; Python harness in '
                                       '/verif/harness generates cases from TLC, drives the real bfg9000 and real '
                                       'tools, records traces and has TLC validate them'}],
        'checks': checks,
        'not_applicable': na,
        'notes': 'exit 0 = held on everything explored (KNOWN-FINDING lines for listed findings); exit 1 + VIOLATION '
                 'line = unlisted violation; exit 2 = machinery failure. Known findings: /verif/known_findings.json.',
    }
    with open(os.path.join(VERIF, 'MANIFEST.json'), 'w') as f:
        json.dump(m, f, indent=1)


if __name__ == '__main__':
    main()
