#!/usr/bin/env python3
"""Regenerates /verif/MANIFEST.json from the table below (single source)."""
import json
import os

VERIF = os.path.dirname(os.path.dirname(os.path.abspath(__file__)))

CHECKS = {
 'C12': dict(
  technique='TLA+ reference algebra (Paths.tla) model-checked with TLC for the algebraic laws; '
            'TLC-generated operation sequences replayed into the real PosixPath/WindowsPath; '
            'recorded traces validated by TLC (Paths_Trace.tla)',
  text='TLC exhaustively checks the laws (normal form, parent/append, relpath/append, common prefix) on the '
       'reference algebra for all raw strings up to a bound; every constructor call up to 3-4 components and '
       'thousands of TLC-simulated operation sequences are executed on both platform flavours and three '
       'separator styles, and TLC decides for each recorded call whether the observed value is the one the '
       'reference assigns. Model checking plus trace validation is the right level for a pure sequential '
       'object: the space is small enough to enumerate and the oracle is an independent specification.',
  note='trusted: the lexical-normalisation reference in Paths.tla (my reading of the property), TLC, the '
       'projection function in harness/checks/c12.py; "//x", "~" and discretionary rejections are not generated',
  design='5/C12'),
}

NOT_YET = {}


def main():
    props = [json.loads(l) for l in open(os.path.join(VERIF, 'properties.jsonl'))]
    checks = []
    na = []
    for p in props:
        pid = p['id']
        if pid in CHECKS:
            c = CHECKS[pid]
            checks.append({
                'property_id': pid,
                'quick_cmd': './check %s --tier quick' % pid,
                'thorough_cmd': './check %s --tier thorough' % pid,
                'evidence_file': '/verif/evidence/%s.json' % pid,
                'replay_cmd_template': './check %s --replay {path}' % pid,
                'engine': 'tlc+harness',
                'level_claimed': {'category': 'model_checking', 'text': c['text'],
                                  'design_ref': 'DESIGN.md section ' + c['design']},
                'level_note': c['note'],
                'technique': c['technique'],
            })
        else:
            na.append({'property_id': pid,
                       'reason': NOT_YET.get(pid, 'check not built yet in this round (planned: see DESIGN.md section 5); nothing is claimed')})
    m = {
        'version': 1,
        'setup_cmd': 'make -C /verif/harness setup',
        'hooks': {
            'guard': 'BFG9000_VERIF',
            'enable': 'BFG9000_VERIF=1 with PYTHONPATH=/verif/harness/shim (sitecustomize-level interception of '
                      'file-system calls; no source patch in /repo)',
            'baseline_off_cmd': 'cd /repo && /venv/bin/python -m pytest -ra -q -p no:cacheprovider --timeout=900 '
                                '--continue-on-collection-errors',
            'source_commits': [],
            'add_only': True,
        },
        'engines': [{'name': 'tlc+harness', 'path': '/verif/check',
                     'serves_properties': sorted(CHECKS),
                     'kind_free_text': 'TLA+ specifications in /verif/spec checked with TLC; Python harness in '
                                       '/verif/harness generates cases from TLC, drives the real bfg9000 and real '
                                       'tools, records traces and has TLC validate them'}],
        'checks': checks,
        'not_applicable': na,
        'notes': 'exit 0 = held on everything explored (KNOWN-FINDING lines for listed findings); exit 1 + VIOLATION '
                 'line = unlisted violation; exit 2 = machinery failure. Known findings: /verif/known_findings.json.',
    }
    with open(os.path.join(VERIF, 'MANIFEST.json'), 'w') as f:
        json.dump(m, f, indent=1)


if __name__ == '__main__':
    main()
