"""Shared driver for C08 / C10: generated projects, edits, regeneration through
the backend's own rule, fresh-configure oracle, fault injection via the shim."""
import filecmp
import json
import os
import shutil
import subprocess
import time

from engine import BIN, VERIF, REPO, run, tool_env, scratch

SHIM = os.path.join(VERIF, 'harness', 'shim')


def write(path, text):
    os.makedirs(os.path.dirname(path), exist_ok=True)
    with open(path, 'w') as f:
        f.write(text)


def tick(*roots):
    """tick barrier: wait until 'now' (as the file system stamps it) is
    strictly newer than every mtime below the given roots"""
    newest = 0
    for r in roots:
        for dp, dns, fns in os.walk(r):
            for n in dns + fns:
                try:
                    newest = max(newest, os.lstat(os.path.join(dp, n))
                                 .st_mtime_ns)
                except OSError:
                    pass
            try:
                newest = max(newest, os.lstat(dp).st_mtime_ns)
            except OSError:
                pass
    import threading
    probe = os.path.join(roots[0], '..', '.tick_probe.%d.%d' % (
        os.getpid(), threading.get_ident()))
    while True:
        with open(probe, 'w'):
            pass
        if os.lstat(probe).st_mtime_ns > newest:
            break
        time.sleep(0.002)
    os.remove(probe)


def copytree(src, dst):
    subprocess.run(['cp', '-a', src, dst], check=True)


class Proj:
    """one scratch project: root/src, root/build"""

    def __init__(self, files, backend='make', args=(), env=None):
        self.root = scratch('verif-regen-')
        self.src = os.path.join(self.root, 'src')
        self.bld = os.path.join(self.root, 'build')
        self.backend = backend
        self.args = list(args)
        self.env = tool_env({'CC': os.path.join(BIN, 'stubcc'),
                             'CXX': os.path.join(BIN, 'stubcxx'),
                             'AR': os.path.join(BIN, 'stubar'),
                             'NINJA': os.path.join(BIN, 'ninja')})
        if env:
            self.env.update(env)
        os.makedirs(self.src)
        for p, text in files.items():
            if text is None:
                os.makedirs(os.path.join(self.src, p), exist_ok=True)
            else:
                write(os.path.join(self.src, p), text)

    def close(self):
        shutil.rmtree(self.root, ignore_errors=True)

    def configure(self, env=None):
        e = dict(self.env)
        if env:
            e.update(env)
        return run(['/venv/bin/bfg9000', 'configure', self.bld,
                    '--no-resolve-packages', '--backend=' + self.backend] +
                   self.args, cwd=self.src, env=e)

    @property
    def buildfile(self):
        return os.path.join(self.bld, 'Makefile' if self.backend == 'make'
                            else 'build.ninja')

    def tool(self, targets=(), env=None, shim=None, timeout=300):
        """run the backend tool (make / reference ninja)"""
        e = dict(self.env)
        if env:
            e.update(env)
        if shim:
            e.update({'BFG9000_VERIF': '1', 'PYTHONPATH': SHIM + (
                ':' + REPO if REPO != '/repo' else ''),
                      'BFG9000_VERIF_ROOT': self.bld})
            e.update(shim)
        cmd = (['make'] if self.backend == 'make' else
               [os.path.join(BIN, 'ninja')]) + list(targets)
        return run(cmd, cwd=self.bld, env=e, timeout=timeout)

    def tick(self):
        tick(self.src, self.bld)

    # ---- state capture
    def save(self, name):
        d = os.path.join(self.root, 'saved-' + name)
        shutil.rmtree(d, ignore_errors=True)
        os.makedirs(d)
        copytree(self.src, os.path.join(d, 'src'))
        if os.path.exists(self.bld):
            copytree(self.bld, os.path.join(d, 'build'))

    def restore(self, name):
        d = os.path.join(self.root, 'saved-' + name)
        shutil.rmtree(self.src, ignore_errors=True)
        shutil.rmtree(self.bld, ignore_errors=True)
        copytree(os.path.join(d, 'src'), self.src)
        if os.path.exists(os.path.join(d, 'build')):
            copytree(os.path.join(d, 'build'), self.bld)

    def outputs(self):
        """content of the primary generated files"""
        out = {}
        for dp, dns, fns in os.walk(self.bld):
            for n in fns:
                rel = os.path.relpath(os.path.join(dp, n), self.bld)
                if n in ('Makefile', 'build.ninja') or n.endswith('.pc'):
                    if dp != self.bld and not n.endswith('.pc'):
                        continue
                    try:
                        out[rel] = open(os.path.join(dp, n), 'rb').read()
                    except OSError:
                        out[rel] = None
        return out

    def fresh(self):
        """what a fresh configure of the current source tree with the saved
        configuration writes (the build dir is moved aside and restored)"""
        aside = self.bld + '.aside'
        os.rename(self.bld, aside)
        try:
            rc, out = self.configure()
            res = self.outputs() if rc == 0 else None
            aux = {}
            for n in ('.bfg_find_deps', 'compile_commands.json'):
                p = os.path.join(self.bld, n)
                aux[n] = open(p, 'rb').read() if os.path.exists(p) else None
            return rc, res, aux, out
        finally:
            shutil.rmtree(self.bld, ignore_errors=True)
            os.rename(aside, self.bld)


def file_state(path):
    if not os.path.exists(path):
        return 'absent'
    if os.path.getsize(path) == 0:
        return 'trunc'
    return 'ok'


def read_mutlog(path):
    out = []
    if os.path.exists(path):
        for line in open(path):
            try:
                out.append(json.loads(line))
            except ValueError:
                pass
    return out


def diff_class(now, fresh):
    """'equal' | 'dist-order' (the files differ only in the order of the
    words of the dist recipes) | 'other'"""
    if fresh is None:
        return 'other'
    if now == fresh:
        return 'equal'
    if set(now) != set(fresh):
        return 'other'
    for k in now:
        a, b = now[k], fresh[k]
        if a == b:
            continue
        if a is None or b is None:
            return 'other'
        la, lb = a.decode(errors='replace').split('\n'), \
            b.decode(errors='replace').split('\n')
        if len(la) != len(lb):
            return 'other'
        for x, y in zip(la, lb):
            if x != y:
                if 'doppel' not in x.lower() or \
                        sorted(x.split()) != sorted(y.split()):
                    return 'other'
    return 'dist-order'
