#!/usr/bin/env python3
"""Run the pinned test command on a tree and compare with BASELINE stable_pass.
usage: baseline_cmp.py [repo_dir]   (prints missing stable tests; exit 1 if any)"""
import json, subprocess, sys, tempfile, os
import xml.etree.ElementTree as ET
repo = sys.argv[1] if len(sys.argv) > 1 else '/repo'
base = json.load(open('/root/.vp/BASELINE.json'))
fd, path = tempfile.mkstemp(suffix='.xml'); os.close(fd)
subprocess.run(['/venv/bin/python', '-m', 'pytest', '-q', '-p', 'no:cacheprovider', '--timeout=900',
                '--continue-on-collection-errors', '--junitxml=' + path], cwd=repo,
               stdout=subprocess.DEVNULL, stderr=subprocess.DEVNULL)
passed = set()
for tc in ET.parse(path).getroot().iter('testcase'):
    if not any(c.tag in ('failure', 'error', 'skipped') for c in tc):
        passed.add('%s::%s' % (tc.get('classname'), tc.get('name')))
os.unlink(path)
missing = sorted(set(base['stable_pass']) - passed)
print('stable_pass=%d passed_now=%d missing=%d' % (len(base['stable_pass']), len(passed), len(missing)))
for m in missing[:40]:
    print('  MISSING', m)
sys.exit(1 if missing else 0)
