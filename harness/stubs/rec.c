/* Recording stub used by the verification harness (see DESIGN.md 3.1).
 * Behaviour is selected by basename(argv[0]):
 *   rec*            record argv (+ selected environment) to $VERIF_LOG, exit 0
 *   stubcc, stubcxx detection queries are delegated to the real gcc/g++;
 *                   compile/link invocations (-c or -o present) are recorded and
 *                   their outputs (-o file, -MF depfile) are created
 *   stubar          recorded; argv[2] is created
 *   shlog           recorded, then execs /bin/sh with the same arguments
 * Record: one line of JSON, every string hex-encoded, written with one write(2)
 * on an O_APPEND descriptor (atomic).
 */
#include <errno.h>
#include <fcntl.h>
#include <libgen.h>
#include <stdio.h>
#include <stdlib.h>
#include <string.h>
#include <sys/stat.h>
#include <unistd.h>

extern char **environ;

static char *buf; static size_t len, cap;
static void put(const char *s, size_t n) {
    if (len + n + 1 > cap) { cap = (len + n + 1) * 2; buf = realloc(buf, cap); }
    memcpy(buf + len, s, n); len += n; buf[len] = 0;
}
static void puts_(const char *s) { put(s, strlen(s)); }
static void hex(const char *s) {
    static const char d[] = "0123456789abcdef";
    put("\"", 1);
    for (; *s; s++) { char x[2] = { d[(unsigned char)*s >> 4], d[*s & 15] }; put(x, 2); }
    put("\"", 1);
}

static void record(const char *kind, int argc, char **argv) {
    const char *log = getenv("VERIF_LOG");
    if (!log) return;
    char cwd[4096];
    puts_("{\"kind\":\""); puts_(kind); puts_("\",\"argv\":[");
    for (int i = 0; i < argc; i++) { if (i) put(",", 1); hex(argv[i]); }
    puts_("],\"cwd\":"); hex(getcwd(cwd, sizeof cwd) ? cwd : "");
    puts_(",\"env\":{");
    int first = 1;
    const char *names = getenv("VERIF_ENVNAMES");
    for (char **e = environ; *e; e++) {
        const char *eq = strchr(*e, '=');
        if (!eq) continue;
        size_t n = eq - *e;
        int want = strncmp(*e, "VV_", 3) == 0;
        if (!want && names) {
            const char *p = names;
            while (*p) {
                const char *q = strchr(p, ',');
                size_t m = q ? (size_t)(q - p) : strlen(p);
                if (m == n && strncmp(p, *e, n) == 0) { want = 1; break; }
                p += m; if (*p == ',') p++;
            }
        }
        if (!want) continue;
        if (!first) put(",", 1);
        first = 0;
        char *name = strndup(*e, n);
        hex(name); put(":", 1); hex(eq + 1);
        free(name);
    }
    puts_("}}\n");
    int fd = open(log, O_WRONLY | O_APPEND | O_CREAT, 0644);
    if (fd >= 0) { if (write(fd, buf, len) < 0) {} close(fd); }
}

static void touch_file(const char *path, const char *content) {
    FILE *f = fopen(path, "w");
    if (f) { fputs(content, f); fclose(f); }
}

static int ends_with(const char *s, const char *suf) {
    size_t a = strlen(s), b = strlen(suf);
    return a >= b && strcmp(s + a - b, suf) == 0;
}

/* make-style escaping of a path inside a depfile, as gcc does it */
static void dep_escape(FILE *f, const char *s) {
    for (; *s; s++) {
        if (*s == ' ' || *s == '#' || *s == '\\') fputc('\\', f);
        if (*s == '$') fputc('$', f);
        fputc(*s, f);
    }
}

int main(int argc, char **argv) {
    char *self = strdup(argv[0]);
    const char *name = basename(self);
    if (strncmp(name, "stubcc", 6) == 0 || strncmp(name, "stubcxx", 7) == 0) {
        int cxx = strncmp(name, "stubcxx", 7) == 0;
        const char *out = 0, *mf = 0; int work = 0;
        for (int i = 1; i < argc; i++) {
            if (strcmp(argv[i], "-o") == 0 && i + 1 < argc) { out = argv[i + 1]; work = 1; }
            if (strcmp(argv[i], "-MF") == 0 && i + 1 < argc) mf = argv[i + 1];
            if (strcmp(argv[i], "-c") == 0) work = 1;
            if (strcmp(argv[i], "-E") == 0 || strcmp(argv[i], "-v") == 0 ||
                strncmp(argv[i], "-print", 6) == 0 || strcmp(argv[i], "--version") == 0) { work = 0; break; }
        }
        if (!work) {
            const char *real = cxx ? "/usr/bin/g++" : "/usr/bin/gcc";
            argv[0] = (char *)real;
            execv(real, argv);
            return 127;
        }
        record(cxx ? "cxx" : "cc", argc, argv);
        if (getenv("VERIF_STUB_FAIL")) return 1;
        if (out) touch_file(out, "stub\n");
        if (mf && out) {
            FILE *f = fopen(mf, "w");
            if (f) {
                dep_escape(f, out); fputs(":", f);
                for (int i = 1; i < argc; i++) {
                    if (argv[i][0] == '-') { if ((!strcmp(argv[i], "-o") || !strcmp(argv[i], "-MF") || !strcmp(argv[i], "-x") || !strcmp(argv[i], "-include")) ) i++; continue; }
                    if (!(ends_with(argv[i], ".c") || ends_with(argv[i], ".cpp") || ends_with(argv[i], ".cc"))) continue;
                    fputs(" ", f); dep_escape(f, argv[i]);
                    /* "// deps: a.h b.h" on the first line lists headers relative to the source's directory */
                    FILE *s = fopen(argv[i], "r");
                    if (s) {
                        char line[4096];
                        if (fgets(line, sizeof line, s) && strncmp(line, "// deps:", 8) == 0) {
                            char *src = strdup(argv[i]); char *dir = dirname(src);
                            for (char *tok = strtok(line + 8, " \n"); tok; tok = strtok(0, " \n")) {
                                char p[8192]; snprintf(p, sizeof p, "%s/%s", dir, tok);
                                fputs(" ", f); dep_escape(f, p);
                            }
                            free(src);
                        }
                        fclose(s);
                    }
                }
                fputs("\n", f); fclose(f);
            }
        }
        return 0;
    }
    if (strncmp(name, "stubar", 6) == 0) {
        record("ar", argc, argv);
        if (argc > 2) touch_file(argv[2], "!<arch>\n");
        return 0;
    }
    if (strncmp(name, "shlog", 5) == 0) {
        record("sh", argc, argv);
        argv[0] = "/bin/sh";
        execv("/bin/sh", argv);
        return 127;
    }
    record("rec", argc, argv);
    {   /* --verif-touch=PATH creates PATH (used for build_step outputs) */
        for (int i = 1; i < argc; i++)
            if (strncmp(argv[i], "--verif-touch=", 14) == 0) touch_file(argv[i] + 14, "made\n");
        const char *x = getenv("VERIF_REC_EXIT");
        return x ? atoi(x) : 0;
    }
}
