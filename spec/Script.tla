-------------------------------- MODULE Script --------------------------------
(* Abstract build scripts and the graph they DESCRIBE (C03, C06, C13, C18).      *)
(*                                                                               *)
(* A script is a sequence of declarations; every declaration is a record with    *)
(* the same fields:                                                              *)
(*   kind  : "exe" | "slib" | "shlib" | "dlib" | "step" | "copy" | "alias" | "cmd" | *)
(*           "test" | "tdeps" | "default" | "install"                            *)
(*   name  : target name (unique)                                                *)
(*   srcs  : sequence of sources: "s1" "s2" "s3" (files s1.c ...) or "g:<step>"  *)
(*           (the .c output of an earlier build_step)                            *)
(*   libs  : sequence of earlier library names                                   *)
(*   ins   : inputs of a build_step / copy: "d1" (data file), "s1".., or          *)
(*           "o:<target>" (the output of an earlier target); for exe/slib/shlib:  *)
(*           generated headers (second output of a two-output step) passed as    *)
(*           includes=                                                           *)
(*   nouts : number of outputs of a build_step (1 or 2)                          *)
(*   always: build_step(always_outdated=True)                                    *)
(*   deps  : earlier target names (alias / cmd / test / default / install)       *)
(*   dist  : FALSE for files declared with dist=False (C18)                      *)
(*   mode  : for a copy whose input is the output of an earlier target: "copy" or "symlink"      *)
(*           (copy_file(name, built_file, mode=...)); a symbolic link never has to be made again  *)
(*           when what it points to changes, but whoever consumes it is as out of date as if it   *)
(*           consumed the file itself                                                             *)
(*   xdeps : earlier targets passed as extra_deps= of a linked target (its link step) or of a    *)
(*           build_step                                                            *)
(*   cdeps : earlier targets passed as extra_compile_deps= of a linked target: EVERY object of    *)
(*           the target depends on them (not its precompiled header)              *)
(*   vlib  : TRUE for a program / shared / dual-use library that links the pre-built library      *)
(*           libv1.a of the source tree (static_library('libv1.a'), no sources): its link step    *)
(*           (both link steps of a dual-use library) consumes that file                           *)
(*   hdr   : TRUE for a linked target compiled with includes=[header_file('h2.h')]: every       *)
(*           object (and the precompiled header) of the target depends on h2.h     *)
(*   pch   : TRUE for a linked target compiled with pch='pch_<name>.h': bfg9000    *)
(*           creates the precompiled-header step itself; it consumes the header    *)
(*           file pch_<name>.h and every generated header passed as includes=,     *)
(*           and every object of the target consumes its output                    *)
(* kind "dlib": library() under --enable-shared --enable-static - a dual-use library: ONE set   *)
(*   of objects, a shared half (the step named like the target; what programs and shared       *)
(*   libraries link) and an archive half (the step ArName(name), made from the same objects).  *)
(*   Passing the library to default() / install() (or the implicit default set) asks for both. *)
(* Header h1.h is included by s1.c and s2.c and is never named in the script.    *)
EXTENDS Naturals, Sequences, FiniteSets, TLC

ToSet(s) == { s[i] : i \in 1..Len(s) }
Prefix(str, p) == Len(str) >= Len(p) /\ SubSeq(str, 1, Len(p)) = p   \* on sequences of chars -- not used for TLA strings

Names(script) == { script[i].name : i \in 1..Len(script) }
Decl(script, nm) == script[CHOOSE i \in 1..Len(script) : script[i].name = nm]
IsTarget(d) == d.kind \in {"exe", "slib", "shlib", "dlib", "step", "copy", "alias", "cmd"}
Targets(script) == { script[i].name : i \in { j \in 1..Len(script) : IsTarget(script[j]) } }
Linked(d) == d.kind \in {"exe", "slib", "shlib", "dlib"}
ArName(nm) == nm \o "_a"
Duals(script) == { nm \in Targets(script) : Decl(script, nm).kind = "dlib" }

\* references: "g:x" / "o:x" name the target x; the harness writes them as records to keep TLA+ simple
\* src / in element = [f |-> file name or "", t |-> target name or ""]
FilesOf(refs) == { refs[i].f : i \in { j \in 1..Len(refs) : refs[j].f # "" } }
TargetsOf(refs) == { refs[i].t : i \in { j \in 1..Len(refs) : refs[j].t # "" } }

Includes(f) == IF f \in {"s1", "s2"} THEN {"h1"} ELSE {}
\* leaf files a declaration reads directly
PchFile(nm) == "pch_" \o nm
DirectFiles(d) == LET fs == FilesOf(d.srcs) \cup FilesOf(d.ins) IN
                  fs \cup UNION { Includes(f) : f \in fs } \cup (IF d.pch THEN {PchFile(d.name)} ELSE {})
                     \cup (IF d.hdr THEN {"h2"} ELSE {}) \cup (IF d.vlib THEN {"v1"} ELSE {})

\* libraries whose requirements a static library forwards to whoever links it
RECURSIVE Forward(_, _)
Forward(script, nm) ==
  LET d == Decl(script, nm) IN
  IF d.kind # "slib" THEN {}
  ELSE ToSet(d.libs) \cup UNION { Forward(script, l) : l \in ToSet(d.libs) }

\* targets a declaration consumes directly.  mode "must": what the step really reads;
\* mode "may": additionally what the script merely declares (a static library's libs=)
DirectTargets(script, d, mode) ==
  TargetsOf(d.srcs) \cup TargetsOf(d.ins) \cup ToSet(d.deps) \cup ToSet(d.xdeps) \cup ToSet(d.cdeps)
  \cup (IF d.kind \in {"exe", "shlib", "dlib"} THEN ToSet(d.libs) \cup UNION { Forward(script, l) : l \in ToSet(d.libs) } ELSE {})
  \cup (IF d.kind = "slib" /\ mode = "may" THEN ToSet(d.libs) ELSE {})

RECURSIVE Upstream(_, _, _)
Upstream(script, nm, mode) ==      \* nm and every target it (transitively) consumes
  LET ds == DirectTargets(script, Decl(script, nm), mode) IN
  {nm} \cup UNION { Upstream(script, x, mode) : x \in ds }

ReadsFile(script, nm, f, mode) == \E u \in Upstream(script, nm, mode) : f \in DirectFiles(Decl(script, u))
DownFile(script, f, mode) == { nm \in Targets(script) : ReadsFile(script, nm, f, mode) }
DownTarget(script, x, mode) == { nm \in Targets(script) : x \in Upstream(script, nm, mode) }

\* ---- goals ------------------------------------------------------------------
Explicit(script) == UNION { ToSet(script[i].deps) : i \in { j \in 1..Len(script) : script[j].kind \in {"default", "install"} } }
\* (kind "tdeps": test_deps(...) - further built files the `tests` target depends on)
Tested(script) == UNION { ToSet(script[i].deps) : i \in { j \in 1..Len(script) : script[j].kind \in {"test", "tdeps"} } }
\* (only the program a test runs - the first word of its command - leaves the default set; further
\*  built files on the command line are members of `tests` but stay defaults)
TestedPrimary(script) == { script[i].deps[1] : i \in { j \in 1..Len(script) : script[j].kind = "test" } }
DefaultSet(script) == IF Explicit(script) # {} THEN Explicit(script)
                      ELSE { nm \in Targets(script) : Linked(Decl(script, nm)) /\ nm \notin TestedPrimary(script) }
GoalSet(script, goal) == CASE goal = "all" -> DefaultSet(script)
                           [] goal = "tests" -> Tested(script)
                           [] OTHER -> {goal}
Needed(script, goal) == UNION { Upstream(script, g, "may") : g \in GoalSet(script, goal) }
NeededMust(script, goal) == UNION { Upstream(script, g, "must") : g \in GoalSet(script, goal) }

\* steps that run whenever they are needed: always_outdated build steps and commands (phony)
Always(script) == { nm \in Targets(script) : LET d == Decl(script, nm) IN (d.kind = "step" /\ d.always) \/ d.kind = "cmd" }
\* copies made as symbolic links: after the first build they need not run again
SymCopies(script) == { nm \in Targets(script) : LET d == Decl(script, nm) IN d.kind = "copy" /\ d.mode = "symlink" }
\* symbolic-link copies with extra_deps= (see the recorded finding: re-made on every build once an
\* extra dependency is newer than what the link points to)
SymX(script) == { nm \in SymCopies(script) : Decl(script, nm).xdeps # <<>> }
\* steps that have an action (an alias has none; a dual-use library has two)
ArActs(script) == { ArName(nm) : nm \in Duals(script) }
Acts(script) == { nm \in Targets(script) : Decl(script, nm).kind # "alias" } \cup ArActs(script)
\* the archive halves a goal asks for: only a goal that names the library itself (never a consumer)
ArNeeded(script, goal) == { ArName(nm) : nm \in Duals(script) \cap GoalSet(script, goal) }

\* compile events: one per (linked target, source) pair
\* (plus the precompiled header of a pch target: source [f |-> pch_<name>, t |-> ""])
PchObj(nm) == <<nm, [f |-> PchFile(nm), t |-> ""]>>
Objs(script) == UNION { { <<nm, s>> : s \in ToSet(Decl(script, nm).srcs) } \cup (IF Decl(script, nm).pch THEN {PchObj(nm)} ELSE {}) :
                        nm \in { x \in Targets(script) : Linked(Decl(script, x)) } }
\* does recompiling object o = <<target, src>> follow from a change of file f / of target x ?
\* (every object of a pch target is compiled against the precompiled header)
ObjReadsFile(script, o, f) == \/ o[2].f # "" /\ (o[2].f = f \/ f \in Includes(o[2].f))
                              \/ f = PchFile(o[1])
                              \/ (f = "h2" /\ Decl(script, o[1]).hdr)
\* (a linked target's `ins` are generated headers passed as includes=: all its objects depend on them)
\* (extra_compile_deps is forwarded to the object files, not to the precompiled-header step)
CDeps(script, o) == IF o = PchObj(o[1]) THEN {} ELSE ToSet(Decl(script, o[1]).cdeps)
\* (mode "may": also through what a static library on the way merely declares - its libs=)
ObjReadsTargetM(script, o, x, mode) == \/ (o[2].t # "" /\ x \in Upstream(script, o[2].t, mode))
                                       \/ \E h \in TargetsOf(Decl(script, o[1]).ins) : x \in Upstream(script, h, mode)
                                       \/ \E c \in CDeps(script, o) : x \in Upstream(script, c, mode)
ObjReadsTarget(script, o, x) == ObjReadsTargetM(script, o, x, "must")
=============================================================================
