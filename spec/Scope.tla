--------------------------------- MODULE Scope ---------------------------------
(* C19: script isolation and relative paths as a state machine over the stack of  *)
(* executing scripts.                                                             *)
(*   Enter(dir)        submodule(...) starts executing the script in `dir`        *)
(*   Export(k)         the running script exports key k                           *)
(*   Probe(owner, vis) the running script looks up a variable assigned by script  *)
(*                     `owner`; vis = it was visible                              *)
(*   Resolve(kind, given, root, got)  the running script names an input or output *)
(*   Return(received)  the script ends; its caller receives `received`            *)
(* Directories and paths are sequences of components.                             *)
EXTENDS Naturals, Sequences, FiniteSets, TLC
Last(s) == s[Len(s)]
Front(s) == SubSeq(s, 1, Len(s) - 1)
RECURSIVE Norm(_, _)
Norm(cs, acc) == IF cs = <<>> THEN acc
                 ELSE IF Head(cs) = ".." THEN (IF acc = <<>> THEN <<"<<escape>>">> ELSE Norm(Tail(cs), Front(acc)))
                 ELSE IF Head(cs) = "." THEN Norm(Tail(cs), acc)
                 ELSE Norm(Tail(cs), Append(acc, Head(cs)))
InputKinds == {"source_file", "relpath", "find"}
\* where the script says the path is (documentation: inputs relative to the submodule's source
\* directory, outputs relative to the matching build subdirectory)
Expected(dir, kind, given) == [root |-> IF kind \in InputKinds THEN "srcdir" ELSE "builddir",
                               comps |-> Norm(dir \o given, <<>>)]
=============================================================================
