------------------------------ MODULE Scope_Trace ------------------------------
(* Recorded executions of generated script trees (probe events printed by the     *)
(* scripts themselves) validated against Scope.tla; plus user-argument events.    *)
(* events: [ev |-> "Enter", dir] [ev |-> "Export", k] [ev |-> "Probe", owner, me, *)
(*  vis] [ev |-> "Resolve", kind, given, root, comps, leaf] [ev |-> "Return",      *)
(*  received (seq of keys)] [ev |-> "Args", phase, spelling, ns (seq of [k, v])]   *)
(*  [ev |-> "Exit", code]                                                         *)
EXTENDS Scope, Json, IOUtils
Traces == JsonDeserialize(IOEnv.TRACE_FILE)
VARIABLES t, l, stack, args
\* stack: sequence of frames [dir, exports (set of keys)]; args: first namespace seen
tvars == <<t, l, stack, args>>
Say(x) == PrintT(ToJson(x))
Reject(clause, info) == Say(<<"REJECT", Traces[t].id, clause, l, info>>) /\ FALSE
Need(cond, clause, info) == IF cond THEN TRUE ELSE Reject(clause, info)
ToSet(s) == { s[i] : i \in 1..Len(s) }
Top == stack[Len(stack)]
TraceInit == t \in 1..Len(Traces) /\ l = 1 /\ stack = <<>> /\ args = <<>>
DoEnter(e) ==
  /\ Need(stack = <<>> \/ (Len(e.dir) = Len(Top.dir) + 1 /\ SubSeq(e.dir, 1, Len(Top.dir)) = Top.dir) \/ e.dir = <<>>,
          "SubmoduleRunsInChildDirectory", e.dir)
  /\ stack' = IF e.dir = <<>> THEN << [dir |-> <<>>, exports |-> {}] >>      \* a new configure / regenerate run
              ELSE Append(stack, [dir |-> e.dir, exports |-> {}])
  /\ UNCHANGED args
DoExport(e) == /\ Need(stack # <<>>, "ExportInsideScript", e.k)
               /\ stack' = [stack EXCEPT ![Len(stack)].exports = @ \cup {e.k}] /\ UNCHANGED args
DoProbe(e) == /\ Need(e.vis = (e.owner = e.me), "VariablesAreScriptLocal", <<e.owner, e.me>>)
              /\ UNCHANGED <<stack, args>>
DoResolve(e) ==
  LET x == Expected(Top.dir, e.kind, e.given) IN
  /\ Need(e.root = x.root, "PathRootMatchesKind", <<e.kind, e.root>>)
  /\ Need(Front(e.comps) = Front(x.comps), "PathIsRelativeToScriptDirectory", <<e.kind, e.comps, x.comps>>)
  /\ UNCHANGED <<stack, args>>
DoReturn(e) ==
  /\ Need(Len(stack) >= 1, "ReturnMatchesEnter", e.received)
  /\ Need(ToSet(e.received) = Top.exports, "CallerReceivesExactlyTheExports", <<e.received, Top.exports>>)
  /\ stack' = Front(stack) /\ UNCHANGED args
\* the submodule ended with an exception that its caller caught: its frame is gone
DoCaught(e) == /\ Need(Len(stack) >= 2, "CaughtInsideCaller", e.ev)
               /\ stack' = Front(stack) /\ UNCHANGED args
DoArgs(e) == /\ Need(args = <<>> \/ e.ns = args, "SameNamespaceForEverySpellingAndPhase", <<e.phase, e.spelling, e.ns>>)
             /\ args' = (IF args = <<>> THEN e.ns ELSE args) /\ UNCHANGED stack
DoExit(e) == Need(e.code = 0, "CommandSucceeds", e.code) /\ UNCHANGED <<stack, args>>
TraceNext == /\ l <= Len(Traces[t].events)
             /\ LET e == Traces[t].events[l] IN
                CASE e.ev = "Enter" -> DoEnter(e) [] e.ev = "Export" -> DoExport(e)
                  [] e.ev = "Probe" -> DoProbe(e) [] e.ev = "Resolve" -> DoResolve(e)
                  [] e.ev = "Return" -> DoReturn(e) [] e.ev = "Args" -> DoArgs(e)
                  [] e.ev = "Exit" -> DoExit(e) [] e.ev = "Caught" -> DoCaught(e)
             /\ l' = l + 1 /\ UNCHANGED t
TraceSpec == TraceInit /\ [][TraceNext]_tvars
=============================================================================
