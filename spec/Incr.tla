---------------------------------- MODULE Incr ----------------------------------
(* C07: incremental builds with the real toolchain.                                *)
(* Sources S (each compiled to one object of one program), headers H that are      *)
(* never named in the build script.  Every file has a version (its content);       *)
(* sources include headers (inc), headers include higher-numbered headers (hinc).  *)
(* The program prints Total.                                                       *)
EXTENDS Naturals, Sequences, FiniteSets, TLC
CONSTANTS S, H, MaxEdits,
          Pch       \* "" or the header (member of H) that is the target's precompiled header: every
                    \* source is compiled against it (bfg9000 adds -include), it cannot be dropped
VARIABLES ver,      \* file -> version (sources and existing headers)
          inc,      \* source -> set of headers it #includes
          hinc,     \* header -> set of headers it #includes (acyclic: only "later" headers)
          exists,   \* header -> BOOLEAN
          objver,   \* source -> fingerprint of what its object was compiled from ({} = no object):
                    \* the set of <<file, version>> of the source and its include closure
          edits, hist
vars == <<ver, inc, hinc, exists, objver, edits, hist>>
HSeq == CHOOSE q \in [1..Cardinality(H) -> H] : /\ \A i, j \in 1..Cardinality(H) : i # j => q[i] # q[j]
                                                /\ (Pch \in H => q[1] = Pch)   \* the pch may include every other header
Idx(h) == CHOOSE i \in 1..Cardinality(H) : HSeq[i] = h
RECURSIVE TVal(_, _, _), TSum(_, _, _)
TVal(v, hi, h) == v[h] + TSum(v, hi, hi[h])
TSum(v, hi, X) == IF X = {} THEN 0 ELSE LET x == CHOOSE y \in X : TRUE IN TVal(v, hi, x) + TSum(v, hi, X \ {x})
Val(s) == ver[s] + TSum(ver, hinc, inc[s])
RECURSIVE SumS(_)
SumS(X) == IF X = {} THEN 0 ELSE LET x == CHOOSE y \in X : TRUE IN Val(x) + SumS(X \ {x})
Total == SumS(S)
RECURSIVE Closure(_)
Closure(X) == IF X = {} THEN {} ELSE X \cup Closure(UNION { hinc[h] : h \in X })
Included == Closure(UNION { inc[s] : s \in S })

Init == /\ ver = [f \in S \cup H |-> 1] /\ inc = [s \in S |-> IF Pch \in H THEN {Pch} ELSE {}] /\ hinc = [h \in H |-> {}]
        /\ exists = [h \in H |-> TRUE] /\ objver = [s \in S |-> {}] /\ edits = 0 /\ hist = <<>>
Log(e) == hist' = Append(hist, e)
E == edits < MaxEdits /\ edits' = edits + 1
Modify(f) == /\ E /\ (f \in H => exists[f]) /\ ver' = [ver EXCEPT ![f] = @ + 1]
             /\ Log([op |-> "modify", f |-> f, g |-> ""]) /\ UNCHANGED <<inc, hinc, exists, objver>>
AddInc(s, h) == /\ E /\ exists[h] /\ h \notin inc[s] /\ inc' = [inc EXCEPT ![s] = @ \cup {h}]
                /\ ver' = [ver EXCEPT ![s] = @ + 1]
                /\ Log([op |-> "addinc", f |-> s, g |-> h]) /\ UNCHANGED <<hinc, exists, objver>>
DropInc(s, h) == /\ E /\ h \in inc[s] /\ h # Pch /\ inc' = [inc EXCEPT ![s] = @ \ {h}]
                 /\ ver' = [ver EXCEPT ![s] = @ + 1]
                 /\ Log([op |-> "dropinc", f |-> s, g |-> h]) /\ UNCHANGED <<hinc, exists, objver>>
AddHInc(h, g) == /\ E /\ exists[h] /\ exists[g] /\ Idx(g) > Idx(h) /\ g \notin hinc[h]
                 /\ hinc' = [hinc EXCEPT ![h] = @ \cup {g}] /\ ver' = [ver EXCEPT ![h] = @ + 1]
                 /\ Log([op |-> "addhinc", f |-> h, g |-> g]) /\ UNCHANGED <<inc, exists, objver>>
DropHInc(h, g) == /\ E /\ g \in hinc[h] /\ hinc' = [hinc EXCEPT ![h] = @ \ {g}]
                  /\ ver' = [ver EXCEPT ![h] = @ + 1]
                  /\ Log([op |-> "drophinc", f |-> h, g |-> g]) /\ UNCHANGED <<inc, exists, objver>>
\* a header nobody includes any more is deleted (or renamed away)
Delete(h) == /\ E /\ exists[h] /\ h \notin Included /\ \A g \in H : h \notin hinc[g]
             /\ exists' = [exists EXCEPT ![h] = FALSE] /\ hinc' = [hinc EXCEPT ![h] = {}]
             /\ Log([op |-> "delete", f |-> h, g |-> ""]) /\ UNCHANGED <<ver, inc, objver>>
Recreate(h) == /\ E /\ ~exists[h] /\ exists' = [exists EXCEPT ![h] = TRUE] /\ ver' = [ver EXCEPT ![h] = @ + 1]
               /\ Log([op |-> "recreate", f |-> h, g |-> ""]) /\ UNCHANGED <<inc, hinc, objver>>
\* a build: exactly the objects whose value is stale are recompiled; the program then prints Total
FP(s) == {<<s, ver[s]>>} \cup { <<h, ver[h]>> : h \in Closure(inc[s]) }
Stale == { s \in S : objver[s] # FP(s) }
Build == /\ objver' = [s \in S |-> FP(s)]
         /\ Log([op |-> "build", f |-> "", g |-> "", compiled |-> Stale, total |-> Total])
         /\ UNCHANGED <<ver, inc, hinc, exists, edits>>
Clean == /\ E /\ objver' = [s \in S |-> {}] /\ Log([op |-> "clean", f |-> "", g |-> ""])
         /\ UNCHANGED <<ver, inc, hinc, exists>>
Next == \/ \E f \in S \cup H : Modify(f)
        \/ \E s \in S, h \in H : AddInc(s, h) \/ DropInc(s, h)
        \/ \E h \in H, g \in H : AddHInc(h, g) \/ DropHInc(h, g)
        \/ \E h \in H : Delete(h) \/ Recreate(h)
        \/ Build \/ Clean
Spec == Init /\ [][Next]_vars
=============================================================================
