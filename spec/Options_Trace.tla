------------------------------ MODULE Options_Trace ------------------------------
(* C16 contract: with the options of the case in effect, compile, link and run       *)
(* succeed and every option has its documented effect on the measured facts.        *)
(* event: [lang, slots (seq of options), facts]                                      *)
EXTENDS Options, Json, IOUtils
Traces == JsonDeserialize(IOEnv.TRACE_FILE)
VARIABLES t, l
tvars == <<t, l>>
Say(x) == PrintT(ToJson(x))
Reject(clause, info) == Say(<<"REJECT", Traces[t].id, clause, l, info>>) /\ FALSE
Need(cond, clause, info) == IF cond THEN TRUE ELSE Reject(clause, info)
TraceInit == t \in 1..Len(Traces) /\ l = 1
TraceNext ==
  /\ l <= Len(Traces[t].events)
  /\ LET e == Traces[t].events[l] IN
     /\ Need(e.facts.configure_exit = 0, "ConfigureSucceeds", e.slots)
     /\ Need(e.facts.compile_exit = 0, "CompilerAcceptsTheFlags", e.slots)
     /\ Need(e.facts.link_exit = 0, "LinkerAcceptsTheFlags", e.slots)
     /\ Need(e.facts.run_exit = 0, "ProgramRuns", e.slots)
     /\ Need(\A k \in 1..Len(e.slots) : Effect(e.slots[k], e.facts), "OptionHasItsDocumentedEffect",
             { e.slots[k] : k \in { j \in 1..Len(e.slots) : ~Effect(e.slots[j], e.facts) } })
  /\ l' = l + 1 /\ UNCHANGED t
TraceSpec == TraceInit /\ [][TraceNext]_tvars
=============================================================================
