-------------------------------- MODULE Incr_Gen --------------------------------
(* Pseudo-random edit/build histories of Incr.tla (one walk per seed).            *)
EXTENDS Incr, Rng, Json
CONSTANTS NSeeds, SeedBase
VARIABLE rng
SSeq == SetToSeq(S)
HS == SetToSeq(H)
GenInit == Init /\ rng \in { SeedOf(i, SeedBase) : i \in 1..NSeeds }
Try(A) == IF ENABLED A THEN A ELSE Build
GenNext ==
  /\ edits < MaxEdits \/ (hist # <<>> /\ hist[Len(hist)].op # "build")
  /\ rng' = Nth(rng, 7)
  /\ LET c == Below(Nth(rng, 1), 16)
         s == PickSeq(SSeq, Nth(rng, 2))
         h == PickSeq(HS, Nth(rng, 3))
         g == PickSeq(HS, Nth(rng, 4))
         f == PickSeq(SSeq \o HS, Nth(rng, 5)) IN
     IF edits >= MaxEdits THEN Build
     ELSE CASE c \in {0, 1} -> (IF ENABLED Modify(f) THEN Modify(f) ELSE Build)
            [] c \in {2, 3, 4} -> (IF ENABLED AddInc(s, h) THEN AddInc(s, h) ELSE Build)
            [] c \in {5, 6} -> (IF ENABLED DropInc(s, h) THEN DropInc(s, h) ELSE Build)
            [] c = 7 -> (IF ENABLED AddHInc(h, g) THEN AddHInc(h, g) ELSE Build)
            [] c = 8 -> (IF ENABLED DropHInc(h, g) THEN DropHInc(h, g) ELSE Build)
            [] c \in {9, 10} -> (IF ENABLED Delete(h) THEN Delete(h) ELSE Build)
            [] c = 11 -> (IF ENABLED Recreate(h) THEN Recreate(h) ELSE Build)
            [] c = 12 -> (IF ENABLED Clean THEN Clean ELSE Build)
            [] OTHER -> Build
GenSpec == GenInit /\ [][GenNext]_<<vars, rng>>
Done == edits >= MaxEdits /\ hist # <<>> /\ hist[Len(hist)].op = "build"
Emit == Done => PrintT(ToJson(hist))
=============================================================================
