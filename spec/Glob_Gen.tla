-------------------------------- MODULE Glob_Gen --------------------------------
(* Case generation for C11: one pseudo-random (tree, filter) per seed (Rng.tla). *)
EXTENDS Glob, Rng, Json
CONSTANTS NSeeds, SeedBase
VARIABLES rng, done
S(str) == str      \* names are written as tuples of symbols below
Names == << <<"a">>, <<"b">>, <<"a","b">>, <<"a",".","c">>, <<"b",".","c">>, <<".","h">>, <<"a","~">>,
            <<"a"," ","b">>, <<"a","*">>, <<"[","a","]">>, <<"s","u","b">>, <<"a",".","h">> >>
L(c) == [k |-> "lit", c |-> c]
Star == [k |-> "star"]
LitComp(n) == [k |-> "c", items |-> [i \in 1..Len(n) |-> L(n[i])]]
PlainNames == << <<"a">>, <<"b">>, <<"a","b">>, <<"s","u","b">>, <<"a",".","c">>, <<"a"," ","b">> >>
GlobComps == << [k |-> "ss"], [k |-> "ss"],
                [k |-> "c", items |-> <<Star>>],
                [k |-> "c", items |-> <<Star, L("."), L("c")>>],
                [k |-> "c", items |-> <<L("a"), Star>>],
                [k |-> "c", items |-> <<[k |-> "any"]>>],
                [k |-> "c", items |-> <<[k |-> "any"], Star>>],
                [k |-> "c", items |-> <<[k |-> "cls", neg |-> FALSE, set |-> <<"a", "b">>]>>],
                [k |-> "c", items |-> <<[k |-> "cls", neg |-> TRUE, set |-> <<"a">>], Star>>],
                [k |-> "c", items |-> <<Star, L("b"), Star>>],
                [k |-> "c", items |-> <<Star, L("."), [k |-> "any"]>>] >>
NameGlobs == << <<Star, L("."), L("h")>>, <<L("a"), Star>>, <<Star>>, <<L("s"), L("u"), L("b")>>, <<L("b")>>,
                <<[k |-> "any"]>>, <<Star, L("."), L("c")>>, <<L("a"), L("b")>> >>
R(k) == Nth(rng, k)
DeepNames == << <<"a">>, <<"b">>, <<"a","b">>, <<"a",".","c">>, <<"s","u","b">> >>
RandPath(k) == IF Below(R(k + 9), 3) = 0
                 THEN [i \in 1..(3 + Below(R(k), 4)) |-> PickSeq(DeepNames, R(k + i))]    \* deep, few names
                 ELSE [i \in 1..(1 + Below(R(k), 3)) |-> PickSeq(Names, R(k + i))]
RandComp(k) == IF Below(R(k), 5) < 2 THEN LitComp(PickSeq(PlainNames, R(k + 1))) ELSE PickSeq(GlobComps, R(k + 1))
\* patterns with several "**" runs: **/x/**/y/**/z and the like
SSComps == << [k |-> "c", items |-> <<Star>>], [k |-> "c", items |-> <<L("a"), Star>>],
              [k |-> "c", items |-> <<Star, L("b"), Star>>], [k |-> "c", items |-> <<L("a")>>],
              [k |-> "c", items |-> <<L("s"), L("u"), L("b")>>], [k |-> "c", items |-> <<Star, L("."), L("c")>>] >>
MultiSS(k) == LET n == 2 + Below(R(k), 3)      \* number of runs
                  cs == [i \in 1..(2 * n) |-> IF i % 2 = 1 THEN [k |-> "ss"] ELSE PickSeq(SSComps, R(k + i))]
                  lead == Below(R(k + 15), 2) = 0 IN
              [comps |-> IF lead THEN cs ELSE Tail(cs) \o <<[k |-> "ss"]>>, dirpat |-> Below(R(k + 20), 5) = 0]
RandPat(k) == IF Below(R(k + 25), 4) = 0 THEN MultiSS(k) ELSE
              LET n == 1 + Below(R(k), 4)
                  cs == [i \in 1..n |-> RandComp(k + 2 * i)]
                  cs2 == IF \E i \in 1..n : IsGlobComp(cs[i]) THEN cs ELSE [cs EXCEPT ![n] = PickSeq(GlobComps, R(k + 1))] IN
              [comps |-> cs2, dirpat |-> Below(R(k + 20), 4) = 0]
RandNG(k) == [items |-> PickSeq(NameGlobs, R(k)), dirpat |-> Below(R(k + 1), 3) = 0]
PrefixesOf(p) == { SubSeq(p, 1, n) : n \in 0..(Len(p) - 1) }
GenInit == done = FALSE /\ rng \in { SeedOf(i, SeedBase) : i \in 1..NSeeds }
GenNext ==
  /\ ~done /\ done' = TRUE /\ rng' = rng
  /\ LET npaths == 2 + Below(R(1), 6)
         paths0 == { RandPath(10 + 5 * i) : i \in 1..npaths }
         ninc0 == 1 + (IF Below(R(2), 4) = 0 THEN 1 ELSE 0)
         \* one case in six: two patterns with sibling literal bases (one base name may be a string
         \* prefix of the other: a / ab), each followed by one glob component
         sib == Below(R(6), 6) = 0
         sibpat(k) == [comps |-> <<LitComp(PickSeq(<< <<"a">>, <<"a","b">>, <<"b">>, <<"s","u","b">>, <<"a",".","c">> >>, R(k))),
                                  PickSeq(<<[k |-> "c", items |-> <<Star>>], [k |-> "c", items |-> <<Star, L("."), L("c")>>],
                                            [k |-> "ss"]>>, R(k + 1))>>,
                       dirpat |-> FALSE]
         inc == IF sib THEN <<sibpat(90), sibpat(95)>> ELSE [i \in 1..ninc0 |-> RandPat(100 + 30 * i)]
         ninc == Len(inc)
         tyc == PickSeq(<<"none", "none", "none", "f", "d", "*">>, R(3))
         ty == IF tyc = "f" /\ \E i \in 1..ninc : inc[i].dirpat THEN "none" ELSE tyc
         extra == IF Below(R(4), 3) = 0 THEN <<RandNG(200)>> ELSE <<>>
         excl == IF Below(R(5), 3) = 0 THEN <<RandNG(210)>> ELSE <<>>
         ex2 == IF ty = "f" THEN [i \in 1..Len(extra) |-> [extra[i] EXCEPT !.dirpat = FALSE]] ELSE extra
         xc2 == IF ty = "f" THEN [i \in 1..Len(excl) |-> [excl[i] EXCEPT !.dirpat = FALSE]] ELSE excl
         f == [include |-> inc, type |-> ty, extra |-> ex2, exclude |-> xc2]
         bases == { BaseOf(inc[i]) : i \in 1..ninc }
         \* make sure there is something to find below every literal base
         paths == paths0 \cup { BaseOf(inc[i]) \o <<PickSeq(Names, R(400 + i))>> : i \in 1..ninc }
         dirs == UNION { PrefixesOf(p) : p \in paths } \cup bases \cup UNION { PrefixesOf(b) : b \in bases }
         leaves == paths \ dirs
         leafdir == [p \in leaves |-> Below(Nth(rng, 300 + Len(p) + Len(p[1])), 4) = 0]
         tree == { [path |-> p, dir |-> TRUE] : p \in dirs } \cup { [path |-> p, dir |-> leafdir[p]] : p \in leaves } IN
     PrintT(ToJson([tree |-> tree, filter |-> f]))
GenSpec == GenInit /\ [][GenNext]_<<rng, done>>
=============================================================================
