-------------------------------- MODULE Script_Gen --------------------------------
(* Pseudo-random build scripts over the declaration kinds of Script.tla: one script *)
(* per seed, one declaration per step (a declaration only refers to earlier ones).   *)
EXTENDS Script, Rng, Json
CONSTANTS NSeeds, SeedBase, MaxDecls
VARIABLES rng, script, len
R(k) == Nth(rng, k)
F(f) == [f |-> f, t |-> ""]
T(x) == [f |-> "", t |-> x]
NameOf(i) == "t" \o ToString(i)
Kinds(P, ks) == { P[i].name : i \in { j \in 1..Len(P) : P[j].kind \in ks } }
\* up to n distinct elements of a set, pseudo-randomly (as a sequence)
RECURSIVE PickN(_, _, _)
PickN(S, n, k) == IF n = 0 \/ S = {} THEN <<>>
                  ELSE LET x == Pick(S, R(k)) IN <<x>> \o PickN(S \ {x}, n - 1, k + 1)
Blank == [kind |-> "", name |-> "", srcs |-> <<>>, libs |-> <<>>, ins |-> <<>>, nouts |-> 1,
          always |-> FALSE, deps |-> <<>>, dist |-> TRUE, pch |-> FALSE, xdeps |-> <<>>, cdeps |-> <<>>, vlib |-> FALSE, hdr |-> FALSE, mode |-> "copy"]
MkSrcs(P, k) ==
  LET fs == PickN({"s1", "s2", "s3"}, 1 + Below(R(k), 2), k + 1)
      gens == Kinds(P, {"step"})
      base == [i \in 1..Len(fs) |-> F(fs[i])] IN
  IF gens # {} /\ Below(R(k + 5), 4) = 0 THEN Append(base, T(Pick(gens, R(k + 6)))) ELSE base
MkDecl(P, i) ==
  LET c == Below(R(1), 15)
      nm == NameOf(i)
      libsA == Kinds(P, {"slib", "shlib"})
      libsD == Kinds(P, {"slib", "shlib", "dlib"})      \* (what programs and shared libraries may link)
      filesT == Kinds(P, {"exe", "slib", "shlib", "step", "copy"})
      exes == Kinds(P, {"exe"})
      linked == Kinds(P, {"exe", "slib", "shlib", "dlib"})
      copied == UNION { FilesOf(P[j].ins) : j \in { x \in 1..Len(P) : P[x].kind = "copy" } }
      twoout == { P[j].name : j \in { x \in 1..Len(P) : P[x].kind = "step" /\ P[x].nouts = 2 } }
      hdrs == IF twoout # {} /\ Below(R(9), 2) = 0 THEN <<T(Pick(twoout, R(10)))>> ELSE <<>>
      exe0 == [Blank EXCEPT !.kind = "exe", !.name = nm, !.srcs = MkSrcs(P, 10),
                            !.libs = PickN(libsD, Below(R(2), 3), 20), !.ins = hdrs]
      \* pch='<header name>' makes bfg9000 create one pch step per object: only with a single source
      xd == IF filesT # {} /\ Below(R(12), 5) = 0 THEN PickN(filesT, 1, 45) ELSE <<>>
      cd == IF filesT # {} /\ Below(R(14), 4) = 0 THEN PickN(filesT, 1, 47) ELSE <<>>
      exe == [exe0 EXCEPT !.xdeps = xd, !.cdeps = cd, !.vlib = (Below(R(16), 5) = 0), !.hdr = (Below(R(13), 5) = 0), !.pch = (Len(exe0.srcs) = 1 /\ Below(R(11), IF hdrs # <<>> THEN 4 ELSE 16) < 3)] IN
  IF c <= 3 THEN exe
  \* (a dual-use library - library() - instead of every second shared one; no extra_deps: they would
  \*  belong to both of its link steps)
  ELSE IF c <= 6 THEN [Blank EXCEPT !.kind = (IF c = 6 THEN (IF Below(R(15), 2) = 0 THEN "dlib" ELSE "shlib") ELSE "slib"),
                                    !.name = nm, !.srcs = MkSrcs(P, 10),
                                    !.libs = PickN(IF c = 6 THEN libsD ELSE libsA, Below(R(2), 2), 20), !.ins = hdrs,
                                    !.xdeps = (IF c = 6 /\ Below(R(15), 2) = 0 THEN <<>> ELSE xd), !.cdeps = cd,
                                    !.vlib = (c = 6 /\ Below(R(16), 4) = 0),
                                    !.hdr = (Below(R(13), 6) = 0)]
  ELSE IF c <= 8 THEN
       LET fins == PickN({"d1", "s3"}, Below(R(3), 2), 30)
           tins == PickN(filesT, IF fins = <<>> THEN 1 ELSE Below(R(4), 2), 35)
           ins == [j \in 1..Len(fins) |-> F(fins[j])] \o [j \in 1..Len(tins) |-> T(tins[j])] IN
       [Blank EXCEPT !.kind = "step", !.name = nm, !.ins = IF ins = <<>> THEN <<F("d1")>> ELSE ins,
                     !.nouts = 1 + Below(R(5), 2), !.always = (Below(R(6), 5) = 0),
                     !.xdeps = IF Below(R(12), 4) = 0 THEN PickN(filesT \ {tins[j] : j \in 1..Len(tins)}, 1, 45) ELSE <<>>]
  ELSE IF c = 9 THEN
       \* a copy (or symbolic link) of a built file / a copy of a source file
       (IF filesT # {} /\ Below(R(6), 2) = 0
          THEN LET src == Pick(filesT, R(7)) IN
               [Blank EXCEPT !.kind = "copy", !.name = nm, !.ins = <<T(src)>>,
                             !.mode = (IF Below(R(8), 2) = 0 THEN "symlink" ELSE "copy"),
                             !.xdeps = IF Below(R(12), 3) = 0 THEN PickN(filesT \ {src}, 1, 45) ELSE <<>>]
        ELSE IF {"d1", "s3"} \ copied = {} THEN exe
        ELSE [Blank EXCEPT !.kind = "copy", !.name = nm, !.ins = <<F(Pick({"d1", "s3"} \ copied, R(7)))>>,
                           !.xdeps = xd,
                           !.dist = (Below(R(8), 4) # 0)])
  \* (a dual-use library is no file: alias() and extra_deps= refuse it)
  ELSE IF c = 10 THEN (IF Targets(P) \ Kinds(P, {"dlib"}) = {} THEN exe
                       ELSE [Blank EXCEPT !.kind = "alias", !.name = nm,
                                          !.deps = PickN(Targets(P) \ Kinds(P, {"dlib"}), 1 + Below(R(3), 2), 40)])
  ELSE IF c = 11 THEN [Blank EXCEPT !.kind = "cmd", !.name = nm, !.deps = PickN(Targets(P) \ Kinds(P, {"dlib"}), Below(R(3), 2), 40)]
  \* test([exe, other built file]): every built file named on the test's command line is a member of `tests`
  ELSE IF c = 12 /\ Kinds(P, {"test"}) # {} /\ Below(R(17), 3) = 0 /\ filesT # {}
       THEN [Blank EXCEPT !.kind = "tdeps", !.name = nm, !.deps = PickN(filesT, 1 + Below(R(3), 2), 40)]
  ELSE IF c = 12 THEN (IF exes = {} THEN exe
                       ELSE LET e1 == PickN(exes, 1, 40)
                                more == IF Below(R(3), 2) = 0 THEN PickN(filesT \ {e1[1]}, 1, 42) ELSE <<>> IN
                            [Blank EXCEPT !.kind = "test", !.name = nm, !.deps = e1 \o more])
  ELSE IF c = 13 THEN (IF filesT = {} THEN exe ELSE [Blank EXCEPT !.kind = "default", !.name = nm,
                                                                   !.deps = PickN(filesT \cup Kinds(P, {"dlib"}), 1 + Below(R(3), 2), 40)])
  ELSE (IF linked = {} THEN exe ELSE [Blank EXCEPT !.kind = "install", !.name = nm, !.deps = PickN(linked, 1, 40)])
GenInit == /\ rng \in { SeedOf(i, SeedBase) : i \in 1..NSeeds } /\ script = <<>>
           /\ len = 3 + Below(Nth(rng, 2), MaxDecls - 2)
GenNext == /\ Len(script) < len
           /\ script' = Append(script, MkDecl(script, Len(script) + 1))
           /\ rng' = Nth(rng, 50) /\ UNCHANGED len
GenSpec == GenInit /\ [][GenNext]_<<rng, script, len>>
Emit == (Len(script) = len) => PrintT(ToJson(script))
=============================================================================
