------------------------------- MODULE NinjaLang -------------------------------
(* Environment model of the Ninja manifest language, value level: how the      *)
(* right-hand side of a binding is evaluated ($-escapes and variable           *)
(* references), and Ninja's own shell-escaping of $in/$out.  Sequences of      *)
(* one-symbol strings.  The reference evaluator harness/ninja_ref.py           *)
(* implements the same rules and is cross-checked against this module on every *)
(* recorded build statement.                                                   *)
EXTENDS Naturals, Sequences, TLC
NjErr == <<"<<NJERR>>">>
NjNameChar(c) == c \in {"a", "b", "c", "d", "e", "f", "g", "h", "i", "j", "k", "l", "m", "n", "o", "p", "q",
                        "r", "s", "t", "u", "v", "w", "x", "y", "z", "1", "0", "2", "3", "4", "5", "6", "7",
                        "8", "9", "_", "-", "K", "A", "B", "C", "D", "E", "F", "G", "H", "I", "J", "L", "M",
                        "N", "O", "P", "Q", "R", "S", "T", "U", "V", "W", "X", "Y", "Z"}
\* value evaluation with an empty scope except for what Scope provides
\* Scope: function from variable names (sequences of symbols) to values
RECURSIVE NjName(_, _)
NjName(t, i) == IF i <= Len(t) /\ NjNameChar(t[i]) THEN <<t[i]>> \o NjName(t, i + 1) ELSE <<>>
RECURSIVE NjEvalR(_, _, _)
NjEvalR(t, i, scope) ==
  IF i > Len(t) THEN <<>>
  ELSE IF t[i] # "$" THEN
       LET r == NjEvalR(t, i + 1, scope) IN IF r = NjErr THEN NjErr ELSE <<t[i]>> \o r
  ELSE IF i + 1 > Len(t) THEN NjErr
  ELSE IF t[i + 1] \in {"$", " ", ":"} THEN
       LET r == NjEvalR(t, i + 2, scope) IN IF r = NjErr THEN NjErr ELSE <<t[i + 1]>> \o r
  ELSE IF t[i + 1] = "{" THEN
       LET nm == NjName(t, i + 2)
           j == i + 2 + Len(nm) IN
       IF nm = <<>> \/ j > Len(t) \/ t[j] # "}" THEN NjErr
       ELSE LET r == NjEvalR(t, j + 1, scope) IN
            IF r = NjErr THEN NjErr
            ELSE (IF nm \in DOMAIN scope THEN scope[nm] ELSE <<>>) \o r
  ELSE LET nm == NjName(t, i + 1) IN
       IF nm = <<>> THEN NjErr
       ELSE LET r == NjEvalR(t, i + 1 + Len(nm), scope) IN
            IF r = NjErr THEN NjErr
            ELSE (IF nm \in DOMAIN scope THEN scope[nm] ELSE <<>>) \o r
NjEval(t, scope) == NjEvalR(t, 1, scope)
NjValue(t) == NjEval(t, <<>>)       \* no variables in scope: every reference yields ""

\* GetShellEscapedString: what ninja does to each path of $in / $out
NjSafe(c) == NjNameChar(c) \/ c \in {"+", ".", "/"}
RECURSIVE NjQ(_)
NjQ(t) == IF t = <<>> THEN <<>> ELSE (IF Head(t) = "'" THEN <<"'", "\\", "'", "'">> ELSE <<Head(t)>>) \o NjQ(Tail(t))
NjShellEscape(p) == IF p # <<>> /\ \A i \in 1..Len(p) : NjSafe(p[i]) THEN p ELSE <<"'">> \o NjQ(p) \o <<"'">>
=============================================================================
