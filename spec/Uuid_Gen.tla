------------------------------- MODULE Uuid_Gen -------------------------------
(* History generation for C20(b): one pseudo-random history per seed.        *)
EXTENDS Uuid, Json, Rng
CONSTANTS NSeeds, SeedBase
VARIABLE rng
GenInit == Init /\ rng \in { SeedOf(i, SeedBase) : i \in 1..NSeeds }
GenNext == LET P == Pick(SUBSET Projects, Nth(rng, 1))
               how == PickSeq(<<"configure", "regenerate", "regenerate">>, Nth(rng, 2))
               D == Pick(DepSets(P), Nth(rng, 3)) IN
           Generate(P, D, how) /\ rng' = Nth(rng, 4)
GenSpec == GenInit /\ [][GenNext]_<<vars, rng>>
GenHist == (runs = MaxRuns) => PrintT(ToJson([i \in 1..Len(hist) |->
              [projects |-> SetToSeq(hist[i].projects), deps |-> SetToSeq(hist[i].deps), how |-> hist[i].how]]))
=============================================================================
