-------------------------------- MODULE Link_Gen --------------------------------
(* Pseudo-random library DAGs for C14 (one per seed).                             *)
EXTENDS Link, Rng
CONSTANTS NSeeds, SeedBase
VARIABLES rng, done
RECURSIVE PickPerm(_, _)
PickPerm(S, k) == IF S = {} THEN <<>> ELSE LET x == Pick(S, Nth(rng, k)) IN <<x>> \o PickPerm(S \ {x}, k + 1)
SubsetOf(S, r) == { x \in S : Below(Nth(r, x), 2) = 0 }
GenInit == /\ done = FALSE /\ rng \in { SeedOf(i, SeedBase) : i \in 1..NSeeds }
           /\ kind = [i \in Libs |-> "static"] /\ deps = [i \in Libs |-> <<>>] /\ uses = [i \in Libs |-> {}]
           /\ elibs = <<>> /\ ecall = [i \in Libs |-> "f"]
GenNext == /\ ~done /\ done' = TRUE /\ rng' = rng
           /\ kind' = [i \in Libs |-> PickSeq(<<"static", "static", "shared">>, Nth(rng, 10 + i))]
           /\ deps' = [i \in Libs |-> PickPerm(SubsetOf(1..(i - 1), Nth(rng, 20 + i)), 30 + 5 * i)]
           /\ uses' = [i \in Libs |-> ToSet(deps'[i])]
           /\ LET S == SubsetOf(Libs, Nth(rng, 60)) IN
              elibs' = PickPerm(IF S = {} THEN {N} ELSE S, 70)
           /\ ecall' = [i \in Libs |-> PickSeq(<<"f", "f", "g">>, Nth(rng, 80 + i))]
GenSpec == GenInit /\ [][GenNext]_<<vars, rng, done>>
\* lopt[i]: static library i carries link_options=['-u', 'g_i'], which must be forwarded to final links
Emit == done => PrintT(ToJson([kind |-> kind, deps |-> deps, elibs |-> elibs, ecall |-> ecall,
                               lopt |-> [i \in Libs |-> Below(Nth(rng, 90 + i), 2) = 0],
                               ok |-> AllLinksOK(kind, deps, uses, elibs, ecall),
                               expected |-> ExpectedOutput(uses, elibs, ecall)]))
=============================================================================
