----------------------------- MODULE EnvVars_Trace -----------------------------
(* Recorded calls on the real EnvVarDict validated against EnvVars.tla.          *)
(* event: [op, k, v, m (arguments as applicable), raised, ret (PopItem: key),    *)
(*         obs |-> [initial, current, changes]]  maps as sequences of <<k, v>>   *)
EXTENDS EnvVars, Json, IOUtils
Traces == JsonDeserialize(IOEnv.TRACE_FILE)
VARIABLES t, l
tvars == <<initial, current, changes, n, hist, t, l>>
Say(x) == PrintT(ToJson(x))
Reject(clause, info) == Say(<<"REJECT", Traces[t].id, clause, l, info>>) /\ FALSE
Need(cond, clause, info) == IF cond THEN TRUE ELSE Reject(clause, info)
\* a logged map (sequence of pairs) as a function
M(s) == [x \in { s[i][1] : i \in 1..Len(s) } |-> (CHOOSE i \in 1..Len(s) : s[i][1] = x)]
Fn(s) == [x \in { s[i][1] : i \in 1..Len(s) } |-> s[M(s)[x]][2]]
AsSeq(m) == m
TraceInit == /\ t \in 1..Len(Traces) /\ l = 1
             /\ initial = Empty /\ current = Empty /\ changes = Empty /\ n = 0 /\ hist = <<>>
\* reference effect of the logged call on (initial, current)
RefCurrent(e) ==
  CASE e.op = "New" -> Fn(e.m)
    [] e.op = "Set" -> Put(current, e.k, e.v)
    [] e.op = "Del" -> (IF e.k \in DOMAIN current THEN Drop(current, e.k) ELSE current)
    [] e.op = "Clear" -> Empty
    [] e.op = "Pop" -> (IF e.k \in DOMAIN current THEN Drop(current, e.k) ELSE current)
    [] e.op = "PopItem" -> (IF e.ret \in DOMAIN current THEN Drop(current, e.ret) ELSE current)
    [] e.op = "SetDefault" -> (IF e.k \in DOMAIN current THEN current ELSE Put(current, e.k, e.v))
    [] e.op = "Update" -> [x \in DOMAIN current \cup DOMAIN Fn(e.m) |-> IF x \in DOMAIN Fn(e.m) THEN Fn(e.m)[x] ELSE current[x]]
    [] e.op = "Reset" -> initial
    [] e.op = "JsonRT" -> current
TraceNext ==
  /\ l <= Len(Traces[t].events)
  /\ LET e == Traces[t].events[l]
         oi == Fn(e.obs.initial) oc == Fn(e.obs.current) och == Fn(e.obs.changes)
         ri == IF e.op = "New" THEN Fn(e.m) ELSE initial
         rc == RefCurrent(e) IN
     /\ Need(e.raised = ((e.op = "Del" /\ e.k \notin DOMAIN current) \/ (e.op = "PopItem" /\ current = Empty)),
             "RaisesExactlyOnMissingKey", e.raised)
     /\ Need(e.op = "PopItem" /\ ~e.raised => e.ret \in DOMAIN current, "PopItemReturnsExistingKey", e.ret)
     /\ Need(oi = ri, "InitialIsConfigureTimeSnapshot", e.obs.initial)
     /\ Need(oc = rc, "CurrentFollowsDictSemantics", e.obs.current)
     /\ Need(Apply(och, oi) = oc, "ChangesReproduceCurrent", e.obs.changes)
     /\ initial' = ri /\ current' = rc /\ changes' = och
  /\ l' = l + 1 /\ UNCHANGED <<n, hist, t>>
TraceSpec == TraceInit /\ [][TraceNext]_tvars
=============================================================================
