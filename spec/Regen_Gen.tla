------------------------------- MODULE Regen_Gen -------------------------------
(* Behaviour generation for C08: every history of the design model Regen.tla    *)
(* (edits interleaved with runs of the backend's regeneration step) up to the    *)
(* bound, with the model's own prediction of each run's outcome.  The histories  *)
(* are replayed on the real bfg9000 + make by harness/checks/c08.py.             *)
EXTENDS Regen, Sequences
VARIABLE hist
FreshP == LET w == Walk(sver', dirs', files') IN [sver |-> sver', found |-> w.found, inc |-> w.seen # {}]
Final(p) == p \in {"uptodate", "failed", "done0"}
Log(h) == IF Final(pc') /\ ~Final(pc)
            THEN Append(h, [op |-> "result", pc |-> pc', fresh |-> (mk'.st = "ok" /\ mk'.desc = FreshP)])
            ELSE h
NMakes(h) == Cardinality({i \in 1..Len(h) : h[i].op = "make"})
\* at most two consecutive runs without an edit in between (make, result, make, result)
TwoMakes(h) == Len(h) >= 4 /\ h[Len(h) - 1].op = "make" /\ h[Len(h) - 3].op = "make"
EditTail == /\ edits' = edits + 1 /\ Tick
            /\ UNCHANGED <<mk, cache, deps, envf, pc, loc, crashes>>
GInit == Init /\ hist = <<>>
GNext ==
  \/ (Configure /\ hist' = Append(hist, [op |-> "configure", sver |-> sver, g |-> ("G" \in dirs)]))
  \/ \E d \in Dirs, n \in Names : AddFile(d, n) /\ EditTail /\ hist' = Append(hist, [op |-> "add", d |-> d, n |-> n])
  \/ \E d \in Dirs, n \in Names : RemoveFile(d, n) /\ EditTail /\ hist' = Append(hist, [op |-> "remove", d |-> d, n |-> n])
  \/ (Mkdir /\ EditTail /\ hist' = Append(hist, [op |-> "mkdir"]))
  \/ (Rmdir /\ EditTail /\ hist' = Append(hist, [op |-> "rmdir"]))
  \/ (EditScript /\ EditTail /\ hist' = Append(hist, [op |-> "script", sver |-> sver']))
  \/ (MakeCheck /\ pc = "idle" /\ NMakes(hist) < MaxEdits + 2 /\ ~TwoMakes(hist)
        /\ hist' = Log(Append(hist, [op |-> "make"])))
  \/ ((Ack \/ LoadEnv \/ EnvOpen \/ EnvClose \/ Check \/ Touch \/ Script \/ DepsOpen \/ DepsClose \/ DepsRename \/ SkipDeps
        \/ CacheOpen \/ CacheClose \/ MkOpen \/ MkClose \/ MkRename) /\ hist' = Log(hist))
GSpec == GInit /\ [][GNext]_<<vars, hist>>
\* a finished history: all edits used, the last step was a completed run
Emit == (edits = MaxEdits /\ pc = "idle" /\ hist # <<>> /\ hist[Len(hist)].op = "result")
          => PrintT(ToJson(hist))
=============================================================================
