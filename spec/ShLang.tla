-------------------------------- MODULE ShLang --------------------------------
(* Environment model: how a POSIX shell (dash) turns one command line, as     *)
(* bfg9000 emits it, into words.  Characters are one-symbol strings ("TAB"    *)
(* for a tab).  The model is deliberately strict: anything the shell would    *)
(* interpret (expansion, globbing, operators, comments, tilde) yields Err,    *)
(* because the contract is that nothing is interpreted.                       *)
EXTENDS Naturals, Sequences, TLC

SQ == "'"
DQ == "\""
BSL == "\\"
ShErr == << <<"<<ERR>>">> >>
ShBlank(c) == c \in {" ", "TAB"}
\* unquoted characters the shell interprets anywhere in a word
ShMeta(c) == c \in {"$", "`", ";", "&", "|", "(", ")", "<", ">", "*", "?", "["}

\* state: i position, mode "n" | "sq" | "dq", cur word, has (word in progress), acc words
RECURSIVE ShP(_, _, _, _, _, _)
ShP(t, i, mode, cur, has, acc) ==
  IF i > Len(t) THEN
     (IF mode # "n" THEN ShErr ELSE IF has THEN Append(acc, cur) ELSE acc)
  ELSE LET c == t[i] IN
   IF mode = "sq" THEN
      IF c = SQ THEN ShP(t, i + 1, "n", cur, TRUE, acc) ELSE ShP(t, i + 1, "sq", Append(cur, c), TRUE, acc)
   ELSE IF mode = "dq" THEN
      IF c = DQ THEN ShP(t, i + 1, "n", cur, TRUE, acc)
      ELSE IF c \in {"$", "`"} THEN ShErr
      ELSE IF c = BSL THEN
         IF i + 1 > Len(t) THEN ShErr
         ELSE IF t[i + 1] \in {"$", "`", DQ, BSL} THEN ShP(t, i + 2, "dq", Append(cur, t[i + 1]), TRUE, acc)
         ELSE ShP(t, i + 1, "dq", Append(cur, c), TRUE, acc)
      ELSE ShP(t, i + 1, "dq", Append(cur, c), TRUE, acc)
   ELSE
      IF c = SQ THEN ShP(t, i + 1, "sq", cur, TRUE, acc)
      ELSE IF c = DQ THEN ShP(t, i + 1, "dq", cur, TRUE, acc)
      ELSE IF c = BSL THEN (IF i + 1 > Len(t) THEN ShErr ELSE ShP(t, i + 2, "n", Append(cur, t[i + 1]), TRUE, acc))
      ELSE IF ShBlank(c) THEN ShP(t, i + 1, "n", <<>>, FALSE, IF has THEN Append(acc, cur) ELSE acc)
      ELSE IF ShMeta(c) THEN ShErr
      ELSE IF c = "#" /\ ~has THEN ShErr            \* comment
      ELSE IF c = "~" /\ ~has THEN ShErr            \* tilde expansion at the start of a word
      ELSE ShP(t, i + 1, "n", Append(cur, c), TRUE, acc)

\* words of a line that is expected to be one simple command without operators
ShWords(line) == ShP(line, 1, "n", <<>>, FALSE, <<>>)
ShOk(ws) == ws # ShErr
=============================================================================
