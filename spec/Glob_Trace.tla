------------------------------- MODULE Glob_Trace -------------------------------
(* Recorded find_files/find_paths calls of the real bfg9000 on real directory   *)
(* trees, validated against the documented semantics of Glob.tla.               *)
(* One trace per generated project; events:                                     *)
(*   [tree (seq of entries), filter, found (seq of entries), found2 (second     *)
(*    call, cached), found_nocache, dist (seq of entries in the dist list),     *)
(*    exit]                                                                     *)
EXTENDS Glob, Json, IOUtils
Traces == JsonDeserialize(IOEnv.TRACE_FILE)
VARIABLES t, l
tvars == <<t, l>>
Say(x) == PrintT(ToJson(x))
Reject(clause, info) == Say(<<"REJECT", Traces[t].id, clause, l, info>>) /\ FALSE
Need(cond, clause, info) == IF cond THEN TRUE ELSE Reject(clause, info)
ToSet(s) == { s[i] : i \in 1..Len(s) }
Files(S) == { e \in S : ~e.dir }
TraceInit == t \in 1..Len(Traces) /\ l = 1
TraceNext ==
  /\ l <= Len(Traces[t].events)
  /\ LET e == Traces[t].events[l]
         tree == ToSet(e.tree)
         root == [path |-> <<>>, dir |-> TRUE]
         \* whether the search root itself (whose relative name is empty) is hit by an exclude
         \* glob such as "*" is not settled by the documentation: then it may or may not be returned
         rootfree == \E k \in 1..Len(e.filter.exclude) : CompMatch(e.filter.exclude[k].items, <<>>)
         \* likewise a pattern's own literal base directory whose name an exclude glob matches: the search
         \* still descends into it (it is what the caller asked to search), whether it is itself a result
         \* is left open
         bases == { [path |-> BaseOf(e.filter.include[k]), dir |-> TRUE] : k \in 1..Len(e.filter.include) }
         drop == (IF rootfree THEN {root} ELSE {}) \cup { b \in bases : b.path # <<>> /\ ExcludeHit(e.filter, b) }
         sel == Selected(tree, e.filter) \ drop
         got == ToSet(e.found) \ drop IN
     /\ Need(e.exit = 0, "ConfigureSucceeds", e.exit)
     /\ Need(got \subseteq tree, "EveryReturnedEntryExists", got \ tree)
     /\ Need(sel \subseteq got, "SelectedEntriesAreReturned", sel \ got)
     /\ Need(got \subseteq sel, "OnlySelectedEntriesAreReturned", got \ sel)
     /\ Need(Len(e.found) = Cardinality(ToSet(e.found)), "NoDuplicates", Len(e.found))
     /\ Need(ToSet(e.found2) = ToSet(e.found), "CacheTransparent", ToSet(e.found2))
     /\ Need(ToSet(e.found_nocache) = ToSet(e.found), "UncachedEqualsCached", ToSet(e.found_nocache))
     /\ Need(Files(got) \subseteq ToSet(e.dist), "FoundFilesAreDistributed", Files(got) \ ToSet(e.dist))
     /\ Need(Files(MustExtra(tree, e.filter)) \subseteq ToSet(e.dist), "ExtraFilesAreDistributed",
             Files(MustExtra(tree, e.filter)) \ ToSet(e.dist))
     \* (an extra glob that matches directories - trailing "/" or type d / * - adds the directory)
     /\ Need(MustExtra(tree, e.filter) \subseteq ToSet(e.dist), "ExtraDirectoriesAreDistributed",
             MustExtra(tree, e.filter) \ ToSet(e.dist))
     /\ Need(\A x \in ToSet(e.dist) : x = root \/ x \in got \/ x \in MayExtra(tree, e.filter) \/ x \in ToSet(e.other_dist),
             "NothingElseIsDistributed", { x \in ToSet(e.dist) : ~(x = root \/ x \in got \/ x \in MayExtra(tree, e.filter) \/ x \in ToSet(e.other_dist)) })
  /\ l' = l + 1 /\ UNCHANGED t
TraceSpec == TraceInit /\ [][TraceNext]_tvars
=============================================================================
