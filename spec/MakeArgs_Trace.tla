---------------------------- MODULE MakeArgs_Trace ----------------------------
(* C01/C02 contract on recorded executions.  One trace per declared step:     *)
(*   [pos, declared (seq of words), delivered (seq of words), started,        *)
(*    nested (seq of [arg, child]) , cmdline (what the tool handed to sh -c,  *)
(*    <<>> if not captured)]                                                  *)
(* Contract: the process started and received exactly the declared words; a   *)
(* test driver received one argument per child which sh splits into the       *)
(* child's words.                                                             *)
EXTENDS ShLang, NinjaLang, Json, IOUtils
Traces == JsonDeserialize(IOEnv.TRACE_FILE)
VARIABLES t, l
tvars == <<t, l>>
Say(x) == PrintT(ToJson(x))
Reject(clause, info) == Say(<<"REJECT", Traces[t].id, clause, l, info>>) /\ FALSE
Need(cond, clause, info) == IF cond THEN TRUE ELSE Reject(clause, info)
TraceInit == t \in 1..Len(Traces) /\ l = 1
TraceNext ==
  /\ l <= Len(Traces[t].events)
  /\ LET e == Traces[t].events[l] IN
     /\ Need(e.started, "StepStarted", e.pos)
     /\ Need(e.delivered = e.declared, "DeliveredEqualsDeclared", e.delivered)
     /\ Need(\A k \in 1..Len(e.nested) : ShWords(e.nested[k].arg) = e.nested[k].child,
             "DriverArgumentSplitsIntoChildWords", e.nested)
     \* environment-model cross-check (not a verdict): does ShLang agree with the real sh?
     /\ (e.cmdline # <<>> /\ e.argv # <<>> /\ ShOk(ShWords(e.cmdline)) /\ ShWords(e.cmdline) # e.argv
           => Say(<<"INFO", "ENV-MODEL-MISMATCH", Traces[t].id>>))
     \* C02: does the reference evaluator agree with NinjaLang on this build statement's binding?
     /\ (e.nj_text # <<>> /\ NjValue(e.nj_text) # e.nj_cmd => Say(<<"INFO", "ENV-MODEL-MISMATCH", Traces[t].id>>))
  /\ l' = l + 1 /\ UNCHANGED t
TraceSpec == TraceInit /\ [][TraceNext]_tvars
=============================================================================
