--------------------------------- MODULE Quote ---------------------------------
(* Design model of bfg9000's quoting layers (shell/posix.py, make/syntax.py,   *)
(* ninja/syntax.py) on sequences of one-symbol strings.                        *)
EXTENDS Naturals, Sequences, TLC
QSQ == "'"
QBSL == "\\"
\* shell/posix.py _bad_chars = [^\w@%+=:,./-]   (\w: letters, digits, underscore; the model's
\* alphabet represents letters by "a", digits by "1"; non-ASCII letters are \w as well)
WordChar(c) == c \in {"a", "b", "1", "_", "@", "%", "+", "=", ":", ",", ".", "/", "-", "U+00E9"}
NeedsQ(t) == t = <<>> \/ \E i \in 1..Len(t) : ~WordChar(t[i])
RECURSIVE InnerQ(_)
InnerQ(t) == IF t = <<>> THEN <<>> ELSE
   (IF Head(t) = QSQ THEN <<QSQ, QBSL, QSQ, QSQ>> ELSE <<Head(t)>>) \o InnerQ(Tail(t))
\* wrap_quotes: drop a doubled quote at either end
WrapQ(t) == IF Len(t) < 3 THEN <<QSQ>> \o t \o <<QSQ>>     \* never hit for escaped text, kept for fidelity
            ELSE LET st == IF t[1] = QSQ THEN 2 ELSE 1              \* text starts with '\'' : skip the empty ''
                     en == IF t[Len(t)] = QSQ THEN Len(t) - 1 ELSE Len(t)
                 IN (IF st = 2 THEN <<>> ELSE <<QSQ>>) \o SubSeq(t, st, en) \o (IF en = Len(t) THEN <<QSQ>> ELSE <<>>)
ShQuote(t) == IF NeedsQ(t) THEN WrapQ(InnerQ(t)) ELSE t
\* make/syntax.py escape_str for Syntax.shell (fn = FALSE) / Syntax.function (fn = TRUE)
RECURSIVE MkEsc(_, _)
MkEsc(t, fn) == IF t = <<>> THEN <<>> ELSE
   (IF Head(t) = "$" THEN <<"$", "$">> ELSE IF fn /\ Head(t) = "," THEN <<"$", ",">> ELSE <<Head(t)>>) \o MkEsc(Tail(t), fn)
\* make/syntax.py Makefile._escape_assignment: backslash runs before "#" (and, for target-specific
\* variables, before ";" up to and including the first ";") are doubled, "#" gets one more backslash
RECURSIVE EscAssign(_, _, _, _)
EscAssign(t, run, tgt, done) ==    \* done: the first ";" of a target-specific value has been passed
  IF t = <<>> THEN [k \in 1..run |-> QBSL]
  ELSE IF done THEN [k \in 1..run |-> QBSL] \o t
  ELSE IF Head(t) = QBSL THEN EscAssign(Tail(t), run + 1, tgt, done)
  ELSE IF Head(t) = "#" THEN [k \in 1..(2 * run + 1) |-> QBSL] \o <<"#">> \o EscAssign(Tail(t), 0, tgt, done)
  ELSE IF tgt /\ Head(t) = ";" THEN [k \in 1..(2 * run) |-> QBSL] \o <<";">> \o EscAssign(Tail(t), 0, tgt, TRUE)
  ELSE [k \in 1..run |-> QBSL] \o <<Head(t)>> \o EscAssign(Tail(t), 0, tgt, done)
\* make/syntax.py escape_str for Syntax.target (dep = FALSE) / Syntax.dependency (dep = TRUE):
\* "$" doubled; before a glob character, blank, TAB, "#", ":" (and "%" in targets, "|" in prerequisites, "~" as
\* the first character) the preceding run of backslashes is doubled and one more backslash added
Bsl(n) == [k \in 1..n |-> QBSL]
\* ("%" only in targets: in a prerequisite of an explicit rule GNU Make keeps the backslash)
PathSpecial(c, dep) == c \in {"?", "*", "[", "]", " ", "TAB", "#", ":"} \/ (dep /\ c = "|") \/ (~dep /\ c = "%")
RECURSIVE MkEscPathR(_, _, _, _)
MkEscPathR(t, run, dep, first) ==
  IF t = <<>> THEN Bsl(run)
  ELSE IF Head(t) = QBSL THEN MkEscPathR(Tail(t), run + 1, dep, FALSE)
  ELSE IF PathSpecial(Head(t), dep) \/ (first /\ Head(t) = "~")
         THEN Bsl(2 * run + 1) \o <<Head(t)>> \o MkEscPathR(Tail(t), 0, dep, FALSE)
  ELSE Bsl(run) \o (IF Head(t) = "$" THEN <<"$", "$">> ELSE <<Head(t)>>) \o MkEscPathR(Tail(t), 0, dep, FALSE)
MkEscPath(t, dep) == MkEscPathR(t, 0, dep, TRUE)
\* ninja/syntax.py escape_str for Syntax.output / input: "$" before ":", "$" and blank
RECURSIVE NjEscPath(_)
NjEscPath(t) == IF t = <<>> THEN <<>> ELSE
   (IF Head(t) \in {":", "$", " "} THEN <<"$", Head(t)>> ELSE <<Head(t)>>) \o NjEscPath(Tail(t))
\* ninja/syntax.py escape_str for Syntax.shell / clean: "$" -> "$$"
RECURSIVE NjEsc(_)
NjEsc(t) == IF t = <<>> THEN <<>> ELSE (IF Head(t) = "$" THEN <<"$", "$">> ELSE <<Head(t)>>) \o NjEsc(Tail(t))
=============================================================================
