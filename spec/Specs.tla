--------------------------------- MODULE Specs ---------------------------------
(* C17(b): version specifier sets.  Versions are natural numbers (the harness     *)
(* maps 2k to "k" and 2k+1 to "k.5"); specifiers use the even ones, acceptance is  *)
(* tested on all points, so every gap between two specifier versions has a witness.*)
(* Reference: Accepts.  Design model: bfg9000's simplify_specifiers.               *)
EXTENDS Naturals, FiniteSets, Sequences, TLC, Json
CONSTANTS SpecVers, Points, MaxSpecs
Ops == {"==", "!=", "<", "<=", ">", ">="}
AllSpecs == [op : Ops, v : SpecVers]
Sat(s, x) == CASE s.op = "==" -> x = s.v [] s.op = "!=" -> x # s.v [] s.op = "<" -> x < s.v
               [] s.op = "<=" -> x <= s.v [] s.op = ">" -> x > s.v [] s.op = ">=" -> x >= s.v
Accepts(S, x) == \A s \in S : Sat(s, x)
Unsat(S) == \A x \in Points : ~Accepts(S, x)

\* ---- design model of simplify_specifiers -------------------------------------
Key(s) == <<s.v, IF s.op \in {">=", "<"} THEN 1 ELSE 2>>
KLess(a, b) == a[1] < b[1] \/ (a[1] = b[1] /\ a[2] < b[2])
MaxBy(S) == CHOOSE s \in S : \A u \in S : ~KLess(Key(s), Key(u)) \/ Key(s) = Key(u)
MinBy(S) == CHOOSE s \in S : \A u \in S : ~KLess(Key(u), Key(s)) \/ Key(s) = Key(u)
InBounds(x, gt, lt) == (gt = {} \/ \A g \in gt : Sat(g, x)) /\ (lt = {} \/ \A g \in lt : Sat(g, x))
Err == [err |-> TRUE]
Simplify(S) ==
  LET eqs == { s \in S : s.op = "==" }
      gts == { s \in S : s.op \in {">", ">="} }
      lts == { s \in S : s.op \in {"<", "<="} }
      gt == IF gts = {} THEN {} ELSE {MaxBy(gts)}
      lt == IF lts = {} THEN {} ELSE {MinBy(lts)}
      ne == { s \in S : s.op = "!=" /\ InBounds(s.v, gt, lt) } IN
  IF Cardinality(eqs) > 1 THEN Err
  ELSE IF eqs # {} THEN
       (LET eq == CHOOSE e \in eqs : TRUE IN
        IF (\E n \in ne : n.v = eq.v) \/ ~InBounds(eq.v, gt, lt) THEN Err ELSE [err |-> FALSE, set |-> {eq}])
  ELSE IF lt # {} /\ gt # {} THEN
       (LET l == CHOOSE x \in lt : TRUE
            g == CHOOSE x \in gt : TRUE IN
        IF ~Sat(g, l.v) \/ ~Sat(l, g.v) THEN Err
        ELSE IF g.v = l.v /\ g.op = ">=" /\ l.op = "<=" THEN [err |-> FALSE, set |-> {[op |-> "==", v |-> g.v]}]
        ELSE [err |-> FALSE, set |-> gt \cup lt \cup ne])
  ELSE [err |-> FALSE, set |-> gt \cup lt \cup ne]

Correct(S) == LET r == Simplify(S) IN
              IF r.err THEN Unsat(S)
              ELSE ~Unsat(S) /\ \A x \in Points : Accepts(r.set, x) = Accepts(S, x)

VARIABLE S
Init == S \in { T \in SUBSET AllSpecs : Cardinality(T) <= MaxSpecs }
Next == UNCHANGED S
Spec == Init /\ [][Next]_S
Report == Correct(S) \/ PrintT(ToJson(<<"DESIGN-FAIL", S>>))
=============================================================================
