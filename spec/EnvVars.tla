-------------------------------- MODULE EnvVars --------------------------------
(* C09(a).  EnvVarDict as a sequential object: `initial` (the variables at      *)
(* configure time), `current`, and `changes` (key -> new value or None) with     *)
(* every mutator.  Contract: the recorded changes applied to the initial         *)
(* variables reproduce the current ones; saving and reloading preserves          *)
(* (initial, current).  Maps are functions whose domain is a subset of Keys.     *)
EXTENDS EnvVarsCore, TLC
CONSTANTS MaxOps
Empty == <<>>          \* the function with empty domain
VARIABLES n, hist
vars == <<initial, current, changes, n, hist>>

Init == /\ initial \in Maps /\ current = initial /\ changes = Empty /\ n = 0
        /\ hist = << [op |-> "New", m |-> initial] >>

Rec(name, args) == hist' = Append(hist, [op |-> name] @@ args)
Step == n' = n + 1 /\ UNCHANGED initial

\* every mutator = its effect on the state (EnvVarsCore.tla) + the history entry
Set(k, v) == C_Set(k, v) /\ Rec("Set", [k |-> k, v |-> v]) /\ Step
Del(k) == C_Del(k) /\ Rec("Del", [k |-> k]) /\ Step
DelMissing(k) == C_DelMissing(k) /\ Rec("Del", [k |-> k]) /\ Step       \* raises KeyError, state unchanged
Clear == C_Clear /\ Rec("Clear", <<>>) /\ Step
Pop(k) == C_Pop(k) /\ Rec("Pop", [k |-> k]) /\ Step
PopItem == C_PopItem /\ Rec("PopItem", <<>>) /\ Step       \* which key is dict-order; the trace says which
SetDefault(k, v) == C_SetDefault(k, v) /\ Rec("SetDefault", [k |-> k, v |-> v]) /\ Step
Update(m) == C_Update(m) /\ Rec("Update", [m |-> m]) /\ Step
Reset == C_Reset /\ Rec("Reset", <<>>) /\ Step
JsonRT == C_JsonRT /\ Rec("JsonRT", <<>>) /\ Step

Next == /\ n < MaxOps
        /\ \/ \E k \in Keys, v \in Vals : Set(k, v) \/ SetDefault(k, v)
           \/ \E k \in Keys : Del(k) \/ DelMissing(k) \/ Pop(k)
           \/ Clear \/ PopItem \/ Reset \/ JsonRT
           \/ \E m \in Maps : Update(m)
Spec == Init /\ [][Next]_vars
View == <<initial, current, changes, n>>
=============================================================================
