-------------------------------- MODULE EnvVars --------------------------------
(* C09(a).  EnvVarDict as a sequential object: `initial` (the variables at      *)
(* configure time), `current`, and `changes` (key -> new value or None) with     *)
(* every mutator.  Contract: the recorded changes applied to the initial         *)
(* variables reproduce the current ones; saving and reloading preserves          *)
(* (initial, current).  Maps are functions whose domain is a subset of Keys.     *)
EXTENDS Naturals, Sequences, FiniteSets, TLC
CONSTANTS Keys, Vals, MaxOps
None == "<None>"
Maps == UNION { [D -> Vals] : D \in SUBSET Keys }
Empty == <<>>          \* the function with empty domain
Put(m, k, v) == [x \in DOMAIN m \cup {k} |-> IF x = k THEN v ELSE m[x]]
Drop(m, k) == [x \in DOMAIN m \ {k} |-> m[x]]
\* apply a change map to a map
Apply(ch, m) == [x \in (DOMAIN m \cup {k \in DOMAIN ch : ch[k] # None}) \ {k \in DOMAIN ch : ch[k] = None}
                    |-> IF x \in DOMAIN ch THEN ch[x] ELSE m[x]]
\* the minimal change map (what the lazy recomputation after from_json yields)
Diff(ini, cur) == [x \in {k \in DOMAIN cur : k \notin DOMAIN ini \/ ini[k] # cur[k]} \cup (DOMAIN ini \ DOMAIN cur)
                     |-> IF x \in DOMAIN cur THEN cur[x] ELSE None]

VARIABLES initial, current, changes, n, hist
vars == <<initial, current, changes, n, hist>>

Init == /\ initial \in Maps /\ current = initial /\ changes = Empty /\ n = 0
        /\ hist = << [op |-> "New", m |-> initial] >>

Rec(name, args) == hist' = Append(hist, [op |-> name] @@ args)
Step == n' = n + 1 /\ UNCHANGED initial

Set(k, v) == /\ current' = Put(current, k, v) /\ changes' = Put(changes, k, v)
             /\ Rec("Set", [k |-> k, v |-> v]) /\ Step
Del(k) == /\ k \in DOMAIN current
          /\ current' = Drop(current, k) /\ changes' = Put(changes, k, None)
          /\ Rec("Del", [k |-> k]) /\ Step
DelMissing(k) == /\ k \notin DOMAIN current /\ UNCHANGED <<current, changes>>
                 /\ Rec("Del", [k |-> k]) /\ Step       \* raises KeyError, state unchanged
Clear == /\ current' = Empty
         /\ changes' = [x \in DOMAIN changes \cup DOMAIN current |-> IF x \in DOMAIN current THEN None ELSE changes[x]]
         /\ Rec("Clear", <<>>) /\ Step
Pop(k) == /\ current' = (IF k \in DOMAIN current THEN Drop(current, k) ELSE current)
          /\ changes' = (IF k \in DOMAIN current THEN Put(changes, k, None) ELSE changes)
          /\ Rec("Pop", [k |-> k]) /\ Step
PopItem == /\ \E k \in DOMAIN current :          \* which key is dict-order; the trace says which
                /\ current' = Drop(current, k) /\ changes' = Put(changes, k, None)
           /\ Rec("PopItem", <<>>) /\ Step
SetDefault(k, v) == /\ current' = (IF k \in DOMAIN current THEN current ELSE Put(current, k, v))
                    /\ changes' = (IF k \in DOMAIN current THEN changes ELSE Put(changes, k, v))
                    /\ Rec("SetDefault", [k |-> k, v |-> v]) /\ Step
Update(m) == /\ current' = [x \in DOMAIN current \cup DOMAIN m |-> IF x \in DOMAIN m THEN m[x] ELSE current[x]]
             /\ changes' = [x \in DOMAIN changes \cup DOMAIN m |-> IF x \in DOMAIN m THEN m[x] ELSE changes[x]]
             /\ Rec("Update", [m |-> m]) /\ Step
Reset == /\ current' = initial /\ changes' = Empty /\ Rec("Reset", <<>>) /\ Step
JsonRT == /\ changes' = Diff(initial, current) /\ UNCHANGED current /\ Rec("JsonRT", <<>>) /\ Step

Next == /\ n < MaxOps
        /\ \/ \E k \in Keys, v \in Vals : Set(k, v) \/ SetDefault(k, v)
           \/ \E k \in Keys : Del(k) \/ DelMissing(k) \/ Pop(k)
           \/ Clear \/ PopItem \/ Reset \/ JsonRT
           \/ \E m \in Maps : Update(m)
Spec == Init /\ [][Next]_vars
View == <<initial, current, changes, n>>
ChangesReproduceCurrent == Apply(changes, initial) = current
=============================================================================
