------------------------------- MODULE MakeArgs -------------------------------
(* C01 design check: bfg9000's quoting (Quote.tla) followed by GNU Make        *)
(* (MakeLang.tla) and sh (ShLang.tla) delivers every word unchanged, in each   *)
(* textual context the Make backend writes arguments into:                    *)
(*   "recipe"  : a recipe line (command, build_step, test ...)                *)
(*   "var"     : a plain := assignment (GLOBAL_CFLAGS := ...), later           *)
(*               substituted into a recipe                                    *)
(*   "tvar"    : a target-specific assignment (tgt: CFLAGS := ...)            *)
(*   "callarg" : the argument of $(call RULE,...) (file lists of link steps)   *)
EXTENDS Quote, MakeLang, ShLang, FiniteSets
CONSTANTS MaxLen, Alpha, Ctxs
VARIABLES w, ctx, done
vars == <<w, ctx, done>>

CONSTANT EscapeAssignments   \* TRUE: the writer escapes "#"/";" in assignments (the repaired tree)
Emit(t, c) == LET e == MkEsc(ShQuote(t), c = "callarg") IN
              IF EscapeAssignments /\ c \in {"var", "tvar"} THEN EscAssign(e, 0, c = "tvar", FALSE) ELSE e
MakeCmd(t, c) == CASE c = "recipe"  -> MkExpand(t)
                   [] c = "var"     -> MkPAssignValue(t)
                   [] c = "tvar"    -> MkTAssignValue(t)
                   [] c = "callarg" -> MkCallArg(t)
Delivered(t, c) == LET m == MakeCmd(Emit(t, c), c) IN m # MkErr /\ ShWords(m) = <<t>>

Init == w = <<>> /\ ctx \in Ctxs /\ done = FALSE
Next == /\ ~done
        /\ \/ (Len(w) < MaxLen /\ \E c \in Alpha : w' = Append(w, c) /\ done' = FALSE /\ UNCHANGED ctx)
           \/ (done' = TRUE /\ UNCHANGED <<w, ctx>>)
Spec == Init /\ [][Next]_vars
\* not an invariant that stops TLC: failing words are printed, the harness compares the predicted
\* set of failing (context, word) pairs with what the real Make/sh pipeline does
Report == (done /\ ~Delivered(w, ctx)) => PrintT(<<"FAIL", ctx, w>>)
=============================================================================
