------------------------------- MODULE Paths -------------------------------
(* C12 (and the naming part of C05): reference semantics of bfg9000's path   *)
(* algebra as a sequential object.                                           *)
(*                                                                           *)
(* A raw path string is abstracted to [drive, abs, comps]: an optional drive *)
(* prefix, an optional leading separator and the components between          *)
(* separators (a trailing separator is a last component "").  Which of "/"   *)
(* and "\" separates two components is NOT part of the abstraction: the      *)
(* property says they are identical, so the harness concretises every raw    *)
(* with several separator styles and the trace spec demands the same value.  *)
(*                                                                           *)
(* A path value is [root, drive, comps, dir, destdir].                       *)
EXTENDS Naturals, Sequences, FiniteSets, TLC

CONSTANTS Comps,      \* component alphabet, contains "", ".", ".."
          Roots,      \* e.g. {"srcdir", "builddir", "absolute", "prefix"}
          MaxRaw,     \* max number of components of a raw string
          MaxOps      \* max number of operations applied to one value

Special == {"", ".", ".."}
Names == Comps \ Special
Rejected == [rejected |-> TRUE]

Last(s) == s[Len(s)]
Front(s) == SubSeq(s, 1, Len(s) - 1)

RawsOfLen(n) == [1..n -> Comps]
RawComps == UNION { RawsOfLen(n) : n \in 0..MaxRaw }
\* a leading empty component would make "//x" (implementation-defined in POSIX)
Raws == { [drive |-> d, abs |-> a, comps |-> c] :
            d \in BOOLEAN, a \in BOOLEAN, c \in {x \in RawComps : x = <<>> \/ x[1] # ""} }

(* ---- lexical normalisation --------------------------------------------- *)
RECURSIVE NormC(_, _, _)
NormC(cs, acc, abs) ==
  IF cs = <<>> THEN acc
  ELSE LET c == Head(cs) IN
    IF c \in {"", "."} THEN NormC(Tail(cs), acc, abs)
    ELSE IF c = ".." THEN
       IF acc # <<>> /\ Last(acc) # ".." THEN NormC(Tail(cs), Front(acc), abs)
       ELSE IF abs THEN NormC(Tail(cs), acc, abs)
       ELSE NormC(Tail(cs), Append(acc, ".."), abs)
    ELSE NormC(Tail(cs), Append(acc, c), abs)

LooksDir(cs) == cs = <<>> \/ Last(cs) \in Special
Escapes(cs) == cs # <<>> /\ Head(cs) = ".."

IsInstallRoot(r) == r \notin {"srcdir", "builddir", "absolute"}

(* ---- construction: Path(raw, root, destdir, directory) ----------------- *)
\* dirarg \in {"none", "true"}  ("false" is a discretionary rejection, not generated)
New(raw, root, destdir, dirarg) ==
  IF raw.drive /\ ~raw.abs THEN Rejected
  ELSE IF destdir /\ root \in {"srcdir", "builddir"} THEN Rejected
  ELSE IF raw.abs THEN
     LET cs == NormC(raw.comps, <<>>, TRUE) IN
     [root |-> "absolute", drive |-> raw.drive, comps |-> cs,
      dir |-> (dirarg = "true" \/ LooksDir(raw.comps) \/ cs = <<>>), destdir |-> destdir]
  ELSE IF root = "absolute" THEN Rejected
  ELSE LET cs == NormC(raw.comps, <<>>, FALSE) IN
     IF Escapes(cs) THEN Rejected
     ELSE [root |-> root, drive |-> FALSE, comps |-> cs,
           dir |-> (dirarg = "true" \/ LooksDir(raw.comps) \/ cs = <<>>), destdir |-> destdir]

IsPath(p) == p # Rejected

(* ---- operations --------------------------------------------------------- *)
Parent(p) == IF p.comps = <<>> THEN Rejected
             ELSE [p EXCEPT !.comps = Front(p.comps), !.dir = TRUE]

AppendRaw(p, raw) ==
  IF raw.drive /\ ~raw.abs THEN Rejected
  ELSE IF raw.abs THEN
     LET cs == NormC(raw.comps, <<>>, TRUE) IN
     [root |-> "absolute", drive |-> raw.drive, comps |-> cs,
      dir |-> (LooksDir(raw.comps) \/ cs = <<>>), destdir |-> p.destdir /\ (p.root = "absolute" \/ IsInstallRoot(p.root))]
  ELSE LET cs == NormC(p.comps \o raw.comps, <<>>, p.root = "absolute") IN
     IF Escapes(cs) THEN Rejected
     ELSE [p EXCEPT !.comps = cs, !.dir = (LooksDir(raw.comps) \/ cs = <<>>)]

AsDirectory(p) == [p EXCEPT !.dir = TRUE]

Reroot(p, root) ==
  IF p.destdir /\ root \in {"srcdir", "builddir"} THEN Rejected
  ELSE IF root = "absolute" /\ p.root # "absolute" THEN Rejected
  ELSE IF p.root = "absolute" THEN p
  ELSE [p EXCEPT !.root = root]

Basename(p) == IF p.comps = <<>> THEN "" ELSE Last(p.comps)

\* longest common prefix of two component sequences
RECURSIVE LCP(_, _)
LCP(a, b) == IF a = <<>> \/ b = <<>> \/ Head(a) # Head(b) THEN <<>>
             ELSE <<Head(a)>> \o LCP(Tail(a), Tail(b))
Ups(n) == [i \in 1..n |-> ".."]
\* the relative path from `start` to `p` (both non-absolute, same root), as components
RelComps(p, start) ==
  LET k == Len(LCP(p.comps, start.comps)) IN
  Ups(Len(start.comps) - k) \o SubSeq(p.comps, k + 1, Len(p.comps))

\* start.append(p.relpath(start)) -- the law says it equals p (dir flag follows the text)
RelAppend(p, start) ==
  IF p.root = "absolute" THEN
       [p EXCEPT !.dir = (p.comps = <<>>), !.destdir = start.destdir /\ (start.root = "absolute" \/ IsInstallRoot(start.root))]
  ELSE IF p.root # start.root THEN Rejected
  ELSE LET rc == RelComps(p, start) IN
       [start EXCEPT !.comps = p.comps, !.dir = (LooksDir(rc) \/ p.comps = <<>>)]

IsPrefix(a, b) == Len(a) <= Len(b) /\ SubSeq(b, 1, Len(a)) = a
Under(p, q) == p.root = q.root /\ p.drive = q.drive /\ IsPrefix(q.comps, p.comps)   \* p is q or below q

\* commonprefix: None unless all roots equal
RECURSIVE LCPAll(_)
LCPAll(ps) == IF Len(ps) = 1 THEN ps[1].comps ELSE LCP(ps[1].comps, LCPAll(Tail(ps)))
HasCommon(ps) == ps # <<>> /\ \A i \in 1..Len(ps) : ps[i].root = ps[1].root /\ ps[i].drive = ps[1].drive
CommonPrefix(ps) == LCPAll(ps)      \* meaningful when HasCommon(ps)

\* uniquetrees contract: a minimal covering subset
IsMinimalCover(us, ps) ==
  /\ \A i \in 1..Len(us) : \E j \in 1..Len(ps) : us[i] = ps[j]
  /\ \A j \in 1..Len(ps) : \E i \in 1..Len(us) : Under(ps[j], us[i])
  /\ \A i, k \in 1..Len(us) : (i # k) => ~Under(us[i], us[k])

SameLoc(p, q) == p.root = q.root /\ p.drive = q.drive /\ p.comps = q.comps /\ p.destdir = q.destdir

(* ---- laws of the algebra (checked on the reference by TLC) -------------- *)
Normal(p) == IsPath(p) => /\ \A i \in 1..Len(p.comps) : p.comps[i] \in Names
                          /\ (p.comps = <<>> => p.dir)
LawParentAppend(p) ==
  IsPath(p) => \A n \in Names :
     LET a == AppendRaw(p, [drive |-> FALSE, abs |-> FALSE, comps |-> <<n>>]) IN
     IsPath(a) /\ SameLoc(Parent(a), p) /\ Basename(a) = n
LawRelAppend(p, q) ==
  (IsPath(p) /\ IsPath(q) /\ (p.root = q.root \/ p.root = "absolute")) =>
     LET r == RelAppend(p, q) IN IsPath(r) /\ r.comps = p.comps /\ r.root = p.root
\* independent statement of relpath: appending RelComps to start normalises to p
LawRelComps(p, q) ==
  (IsPath(p) /\ IsPath(q) /\ p.root = q.root /\ p.root # "absolute") =>
     NormC(q.comps \o RelComps(p, q), <<>>, FALSE) = p.comps
LawCommonPrefix(p, q) ==
  (IsPath(p) /\ IsPath(q) /\ p.root = q.root) =>
     LET c == CommonPrefix(<<p, q>>) IN
     IsPrefix(c, p.comps) /\ IsPrefix(c, q.comps) /\
     (Len(c) < Len(p.comps) /\ Len(c) < Len(q.comps) => p.comps[Len(c)+1] # q.comps[Len(c)+1])

(* ---- the sequential object as a state machine --------------------------- *)
VARIABLES p, q, n, hist
vars == <<p, q, n, hist>>

Ev(name, args) == [op |-> name] @@ args

Init == /\ \E raw \in Raws, root \in Roots, dd \in BOOLEAN, da \in {"none", "true"} :
             /\ p = New(raw, root, dd, da)
             /\ hist = << [op |-> "New", raw |-> raw, root |-> root, destdir |-> dd, dirarg |-> da] >>
        /\ q = Rejected /\ n = 0

Step(name, args, val) == /\ p' = val /\ n' = n + 1
                         /\ hist' = Append(hist, [op |-> name] @@ args) /\ UNCHANGED q

OpParent   == Step("Parent", <<>>, Parent(p))
ShortRaws  == {r \in Raws : Len(r.comps) <= 2}
AppendWith(raw) == Step("Append", [raw |-> raw], AppendRaw(p, raw))
OpAppend   == \E raw \in ShortRaws : AppendWith(raw)
OpAsDir    == Step("AsDirectory", <<>>, AsDirectory(p))
OpReroot   == \E r \in Roots : Step("Reroot", [root |-> r], Reroot(p, r))
OpJson     == Step("JsonRT", <<>>, p)
RelAppWith(raw, dd) ==
                 LET s == New(raw, (IF p.root = "absolute" THEN "srcdir" ELSE p.root), dd, "none") IN
                 IsPath(s) /\ Step("RelAppend", [raw |-> raw, destdir |-> dd], RelAppend(p, s))
OpRelApp   == \E raw \in ShortRaws, dd \in BOOLEAN : RelAppWith(raw, dd)
OpSave     == /\ q' = p /\ UNCHANGED <<p, n>> /\ hist' = Append(hist, [op |-> "Save"])

Next == /\ IsPath(p) /\ n < MaxOps
        /\ (OpParent \/ OpAppend \/ OpAsDir \/ OpReroot \/ OpJson \/ OpRelApp)

Spec == Init /\ [][Next]_vars

View == <<p, n>>

InvNormal == Normal(p)
InvParentAppend == LawParentAppend(p)
InvRel == \A raw \in ShortRaws :
            LET s == IF IsPath(p) THEN New(raw, p.root, FALSE, "none") ELSE Rejected IN
            LawRelAppend(p, s) /\ LawRelComps(p, s) /\ LawCommonPrefix(p, s)
=============================================================================
