------------------------------ MODULE Install_Trace ------------------------------
(* C15 contract on recorded install / uninstall runs.                               *)
(* events:                                                                          *)
(*  [ev |-> "Config", cfg, destdir]                                                 *)
(*  [ev |-> "Item", kind, dirarg (components appended to the kind's directory, or    *)
(*          <<>>), ret (seq of returned installed paths [root, comps]),              *)
(*          files (for hdrdir: the relative paths of the matched headers),           *)
(*          deps (returned-path style entries for run-time dependencies:             *)
(*          [root, comps]) ]                                                         *)
(*  [ev |-> "Install", exit, tree (seq of file paths below the staging root),        *)
(*          outside_changed]                                                         *)
(*  [ev |-> "Rpath", file (path below staging root), dirs (seq of paths), want       *)
(*          (seq of [root, comps] directories that must be listed)]                  *)
(*  [ev |-> "Uninstall", exit, tree]                                                 *)
EXTENDS Install, Json, IOUtils
Traces == JsonDeserialize(IOEnv.TRACE_FILE)
VARIABLES t, l, cfg, destdir, expected
tvars == <<t, l, cfg, destdir, expected>>
Say(x) == PrintT(ToJson(x))
Reject(clause, info) == Say(<<"REJECT", Traces[t].id, clause, l, info>>) /\ FALSE
Need(cond, clause, info) == IF cond THEN TRUE ELSE Reject(clause, info)
ToSet(s) == { s[i] : i \in 1..Len(s) }
TraceInit == t \in 1..Len(Traces) /\ l = 1 /\ cfg = <<>> /\ destdir = <<>> /\ expected = {}
DoItem(e) ==
  LET dir == RootValue(cfg, KindRoot(e.kind)) \o e.dirarg
      rets == ToSet(e.ret)
      files == IF e.kind = "hdrdir"
                 THEN { Realize(cfg, destdir, [root |-> r.root, comps |-> r.comps \o f]) : r \in rets, f \in ToSet(e.files) }
                 ELSE { Realize(cfg, destdir, r) : r \in rets }
      depfiles == { Realize(cfg, destdir, d) : d \in ToSet(e.deps) } IN
  /\ Need(\A r \in rets : IsPrefix(dir, RootValue(cfg, r.root) \o r.comps),
          "InstalledUnderTheDirectoryOfItsKind", <<e.kind, rets>>)
  \* kinds with a documented leaf (manN/<basename>, the basename of a source-tree file)
  /\ Need(e.leaf = <<>> \/ \A r \in rets : RootValue(cfg, r.root) \o r.comps = dir \o e.leaf,
          "LeafPlacementOfItsKind", <<e.kind, rets>>)
  /\ expected' = expected \cup files \cup depfiles
  /\ UNCHANGED <<cfg, destdir>>
TraceNext ==
  /\ l <= Len(Traces[t].events)
  /\ LET e == Traces[t].events[l] IN
     CASE e.ev = "Config" -> cfg' = e.cfg /\ destdir' = e.destdir /\ expected' = {}
       [] e.ev = "Item" -> DoItem(e)
       [] e.ev = "Install" ->
            /\ Need(e.exit = 0, "InstallSucceeds", e.exit)
            /\ Need(expected \subseteq ToSet(e.tree), "EveryDeclaredFileAndDependencyInstalled", expected \ ToSet(e.tree))
            /\ Need(ToSet(e.tree) \subseteq expected, "NothingElseInstalled", ToSet(e.tree) \ expected)
            /\ Need(~e.outside_changed, "NothingOutsideDestdirTouched", e.outside_changed)
            /\ UNCHANGED <<cfg, destdir, expected>>
       [] e.ev = "Rpath" ->
            /\ Need(\A w \in ToSet(e.want) : RootValue(cfg, w.root) \o w.comps \in ToSet(e.dirs),
                    "RpathNamesInstalledLibraryDirectories", e.dirs)
            /\ Need(\A d \in ToSet(e.dirs) : d # <<>> /\ d[1] # "$ORIGIN" /\ ~IsPrefix(e.builddir, d),
                    "RpathHasNoBuildDirectoryEntries", e.dirs)
            /\ UNCHANGED <<cfg, destdir, expected>>
       [] e.ev = "Run" ->
            /\ Need(e.exit = 0, "InstalledProgramStartsWithoutTheBuildDirectory", e.exit)
            /\ UNCHANGED <<cfg, destdir, expected>>
       [] e.ev = "Uninstall" ->
            /\ Need(e.exit = 0, "UninstallSucceeds", e.exit)
            /\ Need(e.tree = <<>>, "UninstallRemovesEverythingInstalled", e.tree)
            /\ UNCHANGED <<cfg, destdir, expected>>
  /\ l' = l + 1 /\ UNCHANGED t
TraceSpec == TraceInit /\ [][TraceNext]_tvars
=============================================================================
