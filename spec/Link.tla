---------------------------------- MODULE Link ----------------------------------
(* C14: libraries that declare their own direct dependencies; final links built   *)
(* by forwarding the requirements of static libraries.                            *)
(*                                                                                *)
(* A project: libraries 1..N (library i may depend only on libraries j < i, so the *)
(* graph is a DAG) and one executable.                                            *)
(*   kind[i]  \in {"static", "shared"}                                            *)
(*   deps[i]  : sequence of libraries listed in libs= of library i (any order)    *)
(*   uses[i]  : the subset of deps[i] whose function library i really calls        *)
(*   elibs    : sequence of libraries listed in libs= of the executable           *)
(*   ecall[j] : "f" or "g": which function of listed library j the executable calls *)
(* Library i has two objects: "a" defines f_i (and calls f_j for j in uses[i]),    *)
(* "b" defines g_i and calls nothing.  The executable calls f_j for j in elibs.    *)
(*                                                                                *)
(* Contract (checked on real builds by Link_Trace): every final link succeeds, the *)
(* program prints Val, also after the build directory was moved.                  *)
(* Design model: bfg9000's forwarding + keep-first de-duplication, followed by an  *)
(* ENVIRONMENT MODEL of a single-pass archive linker.                             *)
EXTENDS Naturals, Sequences, FiniteSets, TLC, Json
CONSTANTS N,
          KeepFirst    \* TRUE: duplicates keep their first position (the pinned tree); FALSE: their last (repaired)
Libs == 1..N
ToSet(s) == { s[i] : i \in 1..Len(s) }
RECURSIVE Uniq(_, _)
Uniq(s, seen) == IF s = <<>> THEN <<>>                 \* keep the FIRST occurrence (option_list / uniques)
                 ELSE IF Head(s) \in seen THEN Uniq(Tail(s), seen)
                 ELSE <<Head(s)>> \o Uniq(Tail(s), seen \cup {Head(s)})

\* value the program prints
RECURSIVE Val(_, _), SumVal(_, _)
Val(uses, i) == i + SumVal(uses, uses[i])
SumVal(uses, S) == IF S = {} THEN 0 ELSE LET x == CHOOSE y \in S : TRUE IN Val(uses, x) + SumVal(uses, S \ {x})

\* ---- design model: what ends up on a final link line -----------------------------
\* ForwardOptions.recurse: a static library forwards its own libs=, then (recursively) what those forward
RECURSIVE Fwd(_, _, _), FwdAll(_, _, _)
Fwd(kind, deps, i) == IF kind[i] # "static" THEN <<>> ELSE deps[i] \o FwdAll(kind, deps, deps[i])
FwdAll(kind, deps, s) == IF s = <<>> THEN <<>> ELSE Fwd(kind, deps, Head(s)) \o FwdAll(kind, deps, Tail(s))
\* libs of a final link = listed libs followed by everything they forward, first occurrence kept
Rev(s) == [i \in 1..Len(s) |-> s[Len(s) + 1 - i]]
LinkLine(kind, deps, listed) ==
  LET all == listed \o FwdAll(kind, deps, listed) IN
  IF KeepFirst THEN Uniq(all, {}) ELSE Rev(Uniq(Rev(all), {}))

\* ---- environment model: single-pass linker ---------------------------------------
\* symbols: <<"f", i>>, <<"g", i>>.  State: undefined, defined.
\* A shared library defines f_i and g_i (its own static deps are already inside it / its shared deps are
\* found through DT_NEEDED); an archive member is pulled only if it defines a currently undefined symbol.
ObjDefs(i, o) == IF o = "a" THEN {<<"f", i>>} ELSE {<<"g", i>>}
ObjUses(uses, i, o) == IF o = "a" THEN { <<"f", j>> : j \in uses[i] } ELSE {}
\* everything a shared library provides at run time: itself plus what its static deps brought in
RECURSIVE Step(_, _, _, _, _)
Step(kind, uses, line, undef, def) ==
  IF line = <<>> THEN [undef |-> undef, def |-> def]
  ELSE LET i == Head(line) IN
    IF kind[i] = "shared" THEN Step(kind, uses, Tail(line), undef \ {<<"f", i>>, <<"g", i>>}, def \cup {<<"f", i>>, <<"g", i>>})
    ELSE \* archive: member a is pulled iff f_i is undefined now (member b never: nobody calls g)
      LET pa == <<"f", i>> \in undef
          pb == <<"g", i>> \in undef
          d2 == def \cup (IF pa THEN {<<"f", i>>} ELSE {}) \cup (IF pb THEN {<<"g", i>>} ELSE {})
          u2 == ((undef \ {<<"f", i>>, <<"g", i>>}) \cup (IF pa THEN ObjUses(uses, i, "a") ELSE {})) \ d2 IN
      Step(kind, uses, Tail(line), u2, d2)
FinalLinkOK(kind, deps, uses, listed, calls) ==
  Step(kind, uses, LinkLine(kind, deps, listed), calls, {}).undef = {}
\* the executable's link, and the link of every shared library (which must resolve its own calls)
AllLinksOK(kind, deps, uses, elibs, ecall) ==
  /\ FinalLinkOK(kind, deps, uses, elibs, { <<ecall[j], j>> : j \in ToSet(elibs) })
  /\ \A i \in Libs : kind[i] = "shared" => FinalLinkOK(kind, deps, uses, deps[i], { <<"f", j>> : j \in uses[i] })
ExpectedOutput(uses, elibs, ecall) ==
  LET RECURSIVE Sum(_)
      Sum(s) == IF s = <<>> THEN 0 ELSE (IF ecall[Head(s)] = "f" THEN Val(uses, Head(s)) ELSE 100 * Head(s)) + Sum(Tail(s))
  IN Sum(elibs)

\* ---- exhaustive enumeration ------------------------------------------------------
Perms(S) == { s \in [1..Cardinality(S) -> S] : \A a, b \in 1..Cardinality(S) : a # b => s[a] # s[b] }
VARIABLES kind, deps, uses, elibs, ecall
vars == <<kind, deps, uses, elibs, ecall>>
Init == /\ kind \in [Libs -> {"static", "shared"}]
        /\ deps \in { d \in [Libs -> UNION { Perms(S) : S \in SUBSET Libs }] : \A i \in Libs : \A j \in ToSet(d[i]) : j < i }
        /\ uses = [i \in Libs |-> ToSet(deps[i])]
        /\ elibs \in UNION { Perms(S) : S \in (SUBSET Libs) \ {{}} }
        /\ ecall \in [Libs -> {"f", "g"}]
Next == UNCHANGED vars
Spec == Init /\ [][Next]_vars
Report == AllLinksOK(kind, deps, uses, elibs, ecall) \/ PrintT(ToJson(<<"DESIGN-FAIL", [kind |-> kind, deps |-> deps, elibs |-> elibs, ecall |-> ecall]>>))
=============================================================================
