------------------------------ MODULE EnvVarsCore ------------------------------
(* The state of EnvVarDict and the effect of every mutator on it, without any    *)
(* history or step counter: the part shared by the TLC model (EnvVars.tla, which  *)
(* adds `n` and `hist`) and by the unbounded inductive check with Apalache        *)
(* (EnvVars_Ind.tla).  Type annotations are for Apalache; TLC ignores them.       *)
EXTENDS Naturals, Sequences, FiniteSets
CONSTANTS
  \* @type: Set(Str);
  Keys,
  \* @type: Set(Str);
  Vals
VARIABLES
  \* @type: Str -> Str;
  initial,
  \* @type: Str -> Str;
  current,
  \* @type: Str -> Str;
  changes
None == "<None>"
Maps == UNION { [D -> Vals] : D \in SUBSET Keys }
\* @type: (Str -> Str, Str, Str) => (Str -> Str);
Put(m, k, v) == [x \in DOMAIN m \cup {k} |-> IF x = k THEN v ELSE m[x]]
\* @type: (Str -> Str, Str) => (Str -> Str);
Drop(m, k) == [x \in DOMAIN m \ {k} |-> m[x]]
\* apply a change map to a map
\* @type: (Str -> Str, Str -> Str) => (Str -> Str);
Apply(ch, m) == [x \in (DOMAIN m \cup {k \in DOMAIN ch : ch[k] # None}) \ {k \in DOMAIN ch : ch[k] = None}
                    |-> IF x \in DOMAIN ch THEN ch[x] ELSE m[x]]
\* the minimal change map (what the lazy recomputation after from_json yields)
\* @type: (Str -> Str, Str -> Str) => (Str -> Str);
Diff(ini, cur) == [x \in {k \in DOMAIN cur : k \notin DOMAIN ini \/ ini[k] # cur[k]} \cup (DOMAIN ini \ DOMAIN cur)
                     |-> IF x \in DOMAIN cur THEN cur[x] ELSE None]

C_Set(k, v) == current' = Put(current, k, v) /\ changes' = Put(changes, k, v)
C_Del(k) == k \in DOMAIN current /\ current' = Drop(current, k) /\ changes' = Put(changes, k, None)
C_DelMissing(k) == k \notin DOMAIN current /\ UNCHANGED <<current, changes>>
C_Clear == /\ current' = [x \in {} |-> None]
           /\ changes' = [x \in DOMAIN changes \cup DOMAIN current |-> IF x \in DOMAIN current THEN None ELSE changes[x]]
C_Pop(k) == /\ current' = (IF k \in DOMAIN current THEN Drop(current, k) ELSE current)
            /\ changes' = (IF k \in DOMAIN current THEN Put(changes, k, None) ELSE changes)
C_PopItem == \E k \in DOMAIN current : current' = Drop(current, k) /\ changes' = Put(changes, k, None)
C_SetDefault(k, v) == /\ current' = (IF k \in DOMAIN current THEN current ELSE Put(current, k, v))
                      /\ changes' = (IF k \in DOMAIN current THEN changes ELSE Put(changes, k, v))
C_Update(m) == /\ current' = [x \in DOMAIN current \cup DOMAIN m |-> IF x \in DOMAIN m THEN m[x] ELSE current[x]]
               /\ changes' = [x \in DOMAIN changes \cup DOMAIN m |-> IF x \in DOMAIN m THEN m[x] ELSE changes[x]]
C_Reset == current' = initial /\ changes' = [x \in {} |-> None]
C_JsonRT == changes' = Diff(initial, current) /\ UNCHANGED current

ChangesReproduceCurrent == Apply(changes, initial) = current
=============================================================================
