------------------------------- MODULE NinjaArgs -------------------------------
(* C02 design check: bfg9000's quoting followed by Ninja value evaluation and   *)
(* sh delivers every word unchanged (build-level `cmd =`, file-level            *)
(* `global_cflags =`, build-level `cflags =` bindings all evaluate the same way).*)
EXTENDS Quote, NinjaLang, ShLang, FiniteSets
CONSTANTS MaxLen, Alpha
VARIABLES w, done
vars == <<w, done>>
Emit(t) == NjEsc(ShQuote(t))
Delivered(t) == LET m == NjValue(Emit(t)) IN m # NjErr /\ ShWords(m) = <<t>>
Init == w = <<>> /\ done = FALSE
Next == /\ ~done
        /\ \/ (Len(w) < MaxLen /\ \E c \in Alpha : w' = Append(w, c) /\ done' = FALSE)
           \/ (done' = TRUE /\ UNCHANGED w)
Spec == Init /\ [][Next]_vars
Report == (done /\ ~Delivered(w)) => PrintT(<<"FAIL", "ninja", w>>)
=============================================================================
