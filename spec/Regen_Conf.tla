------------------------------- MODULE Regen_Conf -------------------------------
(* Design-level conformance for C08/C10: is the order of file-system mutations      *)
(* recorded from a real `bfg9000 regenerate --lazy` (shim log, post side of each      *)
(* call) a behaviour of the design model Regen.tla?  The world (directories, files,   *)
(* script version, edits) is not logged: TLC infers it -- Configure, Edit, MakeCheck, *)
(* Ack, LoadEnv, Check and Script are taken as silent steps between two logged        *)
(* mutations.  A trace that no behaviour explains is SPEC-DRIFT (the code no longer   *)
(* follows the modelled algorithm, so the exhaustive design result does not           *)
(* transfer); it is never a violation.                                                *)
(* trace: [id, acts (seq of action names: EnvOpen EnvClose DepsOpen DepsClose          *)
(*         DepsRename SkipDeps CacheOpen CacheClose MkOpen MkClose MkRename Touch Crash)]       *)
EXTENDS Regen, Sequences, IOUtils
Traces == JsonDeserialize(IOEnv.TRACE_FILE)
VARIABLES t, l
cvars == <<vars, t, l>>
ConfInit == Init /\ t \in 1..Len(Traces) /\ l = 1
Logged(a) == CASE a = "EnvOpen" -> EnvOpen [] a = "EnvClose" -> EnvClose [] a = "DepsOpen" -> DepsOpen
               [] a = "DepsClose" -> DepsClose [] a = "DepsRename" -> (DepsRename \/ SkipDeps) [] a = "SkipDeps" -> SkipDeps
               [] a = "CacheOpen" -> CacheOpen [] a = "CacheClose" -> CacheClose [] a = "MkOpen" -> MkOpen
               [] a = "MkClose" -> MkClose [] a = "MkRename" -> MkRename [] a = "Touch" -> Touch [] a = "Crash" -> Crash
\* (writing the temporary depfile does not change the modelled state: DepsOpen / DepsClose are silent)
Silent == Configure \/ Edit \/ MakeCheck \/ Ack \/ LoadEnv \/ Check \/ Script \/ DepsOpen \/ DepsClose
ConfNext == \/ (l <= Len(Traces[t].acts) /\ Logged(Traces[t].acts[l]) /\ l' = l + 1 /\ UNCHANGED t)
            \/ (l <= Len(Traces[t].acts) /\ Silent /\ UNCHANGED <<t, l>>)
ConfSpec == ConfInit /\ [][ConfNext]_cvars
Explained == (l = Len(Traces[t].acts) + 1) => PrintT(ToJson(<<"ACCEPT", Traces[t].id>>))
=============================================================================
