------------------------------ MODULE EnvVars_Gen ------------------------------
(* Operation sequences for C09(a): one pseudo-random walk of EnvVars per seed.   *)
EXTENDS EnvVars, Rng, Json
CONSTANTS NSeeds, SeedBase
VARIABLE rng
KeySeq == SetToSeq(Keys)
ValSeq == SetToSeq(Vals)
MapSeq == SetToSeq(Maps)
GenInit == /\ rng \in { SeedOf(i, SeedBase) : i \in 1..NSeeds }
           /\ initial = PickSeq(MapSeq, Nth(rng, 7)) /\ current = initial /\ changes = Empty /\ n = 0
           /\ hist = << [op |-> "New", m |-> initial] >>
GenNext == /\ n < MaxOps /\ rng' = Nth(rng, 5)
           /\ LET c == Below(Nth(rng, 1), 11)
                  k == PickSeq(KeySeq, Nth(rng, 2))
                  v == PickSeq(ValSeq, Nth(rng, 3))
                  m == PickSeq(MapSeq, Nth(rng, 4)) IN
              CASE c = 0 -> Set(k, v)
                [] c = 1 -> Set(k, v)
                [] c = 2 -> (IF k \in DOMAIN current THEN Del(k) ELSE DelMissing(k))
                [] c = 3 -> Clear
                [] c = 4 -> Pop(k)
                [] c = 5 -> (IF current = Empty THEN Reset ELSE PopItem)
                [] c = 6 -> SetDefault(k, v)
                [] c = 7 -> Update(m)
                [] c = 8 -> Reset
                [] c = 9 -> JsonRT
                [] OTHER -> Set(k, v)
GenSpec == GenInit /\ [][GenNext]_<<vars, rng>>
GenHist == (n = MaxOps) => PrintT(ToJson(hist))
=============================================================================
