------------------------------- MODULE WinArgv -------------------------------
(* C20(a).  Environment model: how the Microsoft C runtime splits a command  *)
(* line into argv[1..] (backslash/quote rules of "Parsing C command-line     *)
(* arguments", including the "" inside a quoted part rule), and the design   *)
(* model of bfg9000's Windows quoting (shell/windows.py quote/join).          *)
(* Characters are one-symbol strings; TAB is the symbol "TAB".               *)
EXTENDS Naturals, Sequences, TLC

BS == "\\"
DQ == "\""
Blank(c) == c \in {" ", "TAB"}

RECURSIVE NumBS(_, _)
NumBS(s, i) == IF i <= Len(s) /\ s[i] = BS THEN 1 + NumBS(s, i + 1) ELSE 0
Rep(c, n) == [k \in 1..n |-> c]

(* ---- Microsoft C runtime ------------------------------------------------ *)
\* i: position; inq: inside quotes; cur: argument being built; has: an argument is in progress
RECURSIVE Crt(_, _, _, _, _, _)
Crt(s, i, inq, cur, has, acc) ==
  IF i > Len(s) THEN (IF has THEN Append(acc, cur) ELSE acc)
  ELSE LET n == NumBS(s, i)
           j == i + n IN
    IF j <= Len(s) /\ s[j] = DQ THEN
       IF n % 2 = 0 THEN
          IF inq /\ j + 1 <= Len(s) /\ s[j + 1] = DQ
            THEN Crt(s, j + 2, inq, cur \o Rep(BS, n \div 2) \o <<DQ>>, TRUE, acc)
            ELSE Crt(s, j + 1, ~inq, cur \o Rep(BS, n \div 2), TRUE, acc)
       ELSE Crt(s, j + 1, inq, cur \o Rep(BS, n \div 2) \o <<DQ>>, TRUE, acc)
    ELSE LET cur2 == cur \o Rep(BS, n)
             has2 == has \/ n > 0 IN
      IF j > Len(s) THEN (IF has2 THEN Append(acc, cur2) ELSE acc)
      ELSE IF ~inq /\ Blank(s[j])
        THEN Crt(s, j + 1, FALSE, <<>>, FALSE, IF has2 THEN Append(acc, cur2) ELSE acc)
        ELSE Crt(s, j + 1, inq, Append(cur2, s[j]), TRUE, acc)
CrtArgs(line) == Crt(line, 1, FALSE, <<>>, FALSE, <<>>)

(* ---- design model: shell/windows.py ------------------------------------- *)
Bad(c) == Blank(c) \/ c \in {DQ, "&", "<", ">", "|"}
NeedsQuote(s) == s = <<>> \/ (\E k \in 1..Len(s) : Bad(s[k])) \/ s[Len(s)] = BS
\* every run of backslashes that is followed by a quote or by the end is doubled, quotes get a backslash
RECURSIVE Esc(_, _)
Esc(s, i) ==
  IF i > Len(s) THEN <<>>
  ELSE LET n == NumBS(s, i)
           j == i + n IN
    IF j > Len(s) THEN Rep(BS, 2 * n)
    ELSE IF s[j] = DQ THEN Rep(BS, 2 * n) \o <<BS, DQ>> \o Esc(s, j + 1)
    ELSE Rep(BS, n) \o <<s[j]>> \o Esc(s, j + 1)
Quote(s) == IF NeedsQuote(s) THEN <<DQ>> \o Esc(s, 1) \o <<DQ>> ELSE s
RECURSIVE Join(_)
Join(args) == IF args = <<>> THEN <<>>
              ELSE IF Len(args) = 1 THEN Quote(args[1])
              ELSE Quote(args[1]) \o <<" ">> \o Join(Tail(args))

(* ---- exhaustive check of the design against the contract ---------------- *)
CONSTANTS Alpha, Max1, Max2
Strs(n) == UNION { [1..k -> Alpha] : k \in 0..n }
VARIABLE args
Init == args \in { <<a>> : a \in Strs(Max1) } \cup { <<a, b>> : a \in Strs(Max2), b \in Strs(Max2) }
Next == UNCHANGED args
Spec == Init /\ [][Next]_args
RoundTrip == CrtArgs(Join(args)) = args
=============================================================================
