------------------------------- MODULE Determ_Gen -------------------------------
(* The invocation-context space of C13, enumerated exhaustively by TLC.           *)
EXTENDS Naturals, TLC, Json
CONSTANTS Seeds, Cwds, Forms, Noises
VARIABLE ctx
Init == ctx \in [seed : Seeds, cwd : Cwds, form : Forms, noise : Noises]
Next == UNCHANGED ctx
Spec == Init /\ [][Next]_ctx
Emit == PrintT(ToJson(ctx))
=============================================================================
