------------------------------- MODULE Regen_Hist -------------------------------
(* Seeded edit histories over richer project variants for C08 (part B).          *)
EXTENDS Rng, Json, TLC
CONSTANTS NSeeds, SeedBase
VARIABLES rng, done
Variants == <<"find", "findrec", "hdrdir", "sub", "pkg", "missingbase", "toolchain", "toolchain", "custom", "hdrnodist">>
Edits == <<"add_match", "add_other", "remove_match", "rename_match", "mkdir_sub", "add_in_sub", "rmdir_sub",
           "edit_script", "edit_options", "edit_subscript", "add_header", "mkdir_gen", "add_gen",
           "edit_toolchain", "trim_toolchain", "edit_toolchain", "add_extra">>
GenInit == done = FALSE /\ rng \in { SeedOf(i, SeedBase) : i \in 1..NSeeds }
GenNext == /\ ~done /\ done' = TRUE /\ rng' = rng
           /\ LET n == 2 + Below(Nth(rng, 1), 4) IN
              PrintT(ToJson([variant |-> PickSeq(Variants, Nth(rng, 2)),
                             backend |-> PickSeq(<<"make", "make", "ninja">>, Nth(rng, 3)),
                             edits |-> [i \in 1..n |-> PickSeq(Edits, Nth(rng, 3 + i))]]))
GenSpec == GenInit /\ [][GenNext]_<<rng, done>>
=============================================================================
