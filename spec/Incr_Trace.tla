------------------------------- MODULE Incr_Trace -------------------------------
(* Real builds (bfg9000 + make/ninja + gcc) of the histories of Incr.tla.           *)
(* Every edit event is replayed through the action of Incr.tla itself; a build      *)
(* event carries what really happened: [exit, compiled (seq of sources), output].   *)
EXTENDS Incr, Json, IOUtils
Traces == JsonDeserialize(IOEnv.TRACE_FILE)
VARIABLES t, l
tvars == <<vars, t, l>>
Say(x) == PrintT(ToJson(x))
Reject(clause, info) == Say(<<"REJECT", Traces[t].id, clause, l, info>>) /\ FALSE
Need(cond, clause, info) == IF cond THEN TRUE ELSE Reject(clause, info)
ToSet(q) == { q[i] : i \in 1..Len(q) }
TraceInit == t \in 1..Len(Traces) /\ l = 1 /\ Init
Apply(e) == CASE e.op = "modify" -> Modify(e.f) [] e.op = "addinc" -> AddInc(e.f, e.g)
              [] e.op = "dropinc" -> DropInc(e.f, e.g) [] e.op = "addhinc" -> AddHInc(e.f, e.g)
              [] e.op = "drophinc" -> DropHInc(e.f, e.g) [] e.op = "delete" -> Delete(e.f)
              [] e.op = "recreate" -> Recreate(e.f) [] e.op = "clean" -> Clean
\* a project with many sources (more products than any batching of the clean command): what clean leaves
\* behind, what a following build fails to recreate, how many objects a header change recompiles
Big(e) == /\ Need(e.exit = 0, "BuildProceeds", e.exit)
          /\ Need(e.left = <<>>, "CleanRemovesEveryProduct", e.left)
          /\ Need(e.missing = <<>>, "CleanThenBuildRecreatesEveryProduct", e.missing)
          /\ Need(e.recompiled = e.nsources, "ChangedIncludeClosureRecompiles", <<e.recompiled, e.nsources>>)
          /\ Need(e.output = e.want, "ProgramOutputIsCurrent", <<e.output, e.want>>)
          /\ UNCHANGED vars
\* the same header name in two include directories: the copy found first is renamed away (the other one
\* takes its place: the header the object includes has changed), later it comes back
Shadow(e) == /\ Need(\A k \in 1..Len(e.steps) : e.steps[k].exit = 0, "BuildProceeds", e.steps)
             /\ Need(\A k \in 1..Len(e.steps) : e.steps[k].recompiled, "ChangedIncludeClosureRecompiles", e.steps)
             /\ Need(\A k \in 1..Len(e.steps) : e.steps[k].output = e.steps[k].want, "ProgramOutputIsCurrent", e.steps)
             /\ UNCHANGED vars
TraceNext ==
  /\ l <= Len(Traces[t].events)
  /\ LET e == Traces[t].events[l] IN
     IF e.op = "shadow" THEN Shadow(e) ELSE
     IF e.op = "big" THEN Big(e) ELSE
     IF e.op = "build" THEN
        /\ Need(e.exit = 0, "BuildProceeds", e.exit)
        /\ Need(Stale \subseteq ToSet(e.compiled), "ChangedIncludeClosureRecompiles", Stale \ ToSet(e.compiled))
        /\ Need(ToSet(e.compiled) \subseteq Stale, "NothingElseRecompiles", ToSet(e.compiled) \ Stale)
        /\ Need(e.output = Total, "ProgramOutputIsCurrent", <<e.output, Total>>)
        /\ Build
     ELSE Apply(e)
  /\ l' = l + 1 /\ UNCHANGED t
TraceSpec == TraceInit /\ [][TraceNext]_tvars
=============================================================================
