----------------------------- MODULE Paths_Gen -----------------------------
(* Behaviour generation for C12 (used with -simulate): every operation      *)
(* draws its arguments with RandomElement so that a state has one successor *)
(* per operation kind; the history of every finished behaviour is printed.  *)
EXTENDS Paths, Json
RandRaw(maxn, allowAbs, allowDrive) ==
  LET k == RandomElement(0..maxn)
      c == [i \in 1..k |-> RandomElement(Comps)]
      a == allowAbs /\ RandomElement(BOOLEAN) IN
  [drive |-> allowDrive /\ a /\ RandomElement(BOOLEAN), abs |-> a,
   comps |-> IF k > 0 /\ c[1] = "" THEN [c EXCEPT ![1] = "."] ELSE c]
GenInit == p = Rejected /\ hist = <<>> /\ q = Rejected /\ n = 0
GenNew == /\ hist = <<>>
          /\ \E raw \in {RandRaw(MaxRaw + 1, TRUE, TRUE)}, root \in {RandomElement(Roots)},
                 dd \in {RandomElement(BOOLEAN)}, da \in {RandomElement({"none", "true"})} :
              /\ p' = New(raw, root, dd, da)
              /\ hist' = << [op |-> "New", raw |-> raw, root |-> root, destdir |-> dd, dirarg |-> da] >>
          /\ UNCHANGED <<q, n>>
GenNext == \/ GenNew
           \/ /\ IsPath(p) /\ n < MaxOps
              /\ \/ OpParent \/ OpAsDir \/ OpJson
                 \/ \E raw \in {RandRaw(2, TRUE, TRUE)} : AppendWith(raw)
                 \/ \E raw \in {RandRaw(3, FALSE, FALSE)} : AppendWith(raw)
                 \/ \E r \in {RandomElement(Roots)} : Step("Reroot", [root |-> r], Reroot(p, r))
                 \/ \E raw \in {RandRaw(3, TRUE, FALSE)}, dd \in {RandomElement(BOOLEAN)} : RelAppWith(raw, dd)
GenSpec == GenInit /\ [][GenNext]_vars
GenHist == (hist # <<>> /\ (n = MaxOps \/ ~IsPath(p))) => PrintT(ToJson(hist))
=============================================================================
