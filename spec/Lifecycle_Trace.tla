----------------------------- MODULE Lifecycle_Trace -----------------------------
(* Soak: recorded walks of the real system validated by stepping Lifecycle.tla.      *)
(* event: [act, exit, src_changed (the source tree differs from what the user's own   *)
(*  edits explain), outside (a file appeared outside the build directory / DESTDIR),  *)
(*  ran (number of tool invocations of a build request), products_ok (every product   *)
(*  exists after a build / install), staged (number of files under DESTDIR)]          *)
EXTENDS Lifecycle, Json, IOUtils
Traces == JsonDeserialize(IOEnv.TRACE_FILE)
VARIABLES t, l
tvars == <<vars, t, l>>
Say(x) == PrintT(ToJson(x))
Reject(clause, info) == Say(<<"REJECT", Traces[t].id, clause, l, info>>) /\ FALSE
Need(cond, clause, info) == IF cond THEN TRUE ELSE Reject(clause, info)
TraceInit == t \in 1..Len(Traces) /\ l = 1 /\ Init
Act(a) == CASE a = "configure" -> Configure [] a = "edit_source" -> EditSource [] a = "edit_script" -> EditScript
            [] a = "add_source" -> AddSource [] a = "build" -> Build [] a = "regenerate" -> Regenerate
            [] a = "clean" -> Clean [] a = "dist" -> Dist [] a = "install" -> Install
            [] a = "uninstall" -> Uninstall [] a = "move_builddir" -> MoveBuildDir
TraceNext ==
  /\ l <= Len(Traces[t].events)
  /\ LET e == Traces[t].events[l] IN
     /\ Need(e.exit = 0, "EveryActionSucceeds", e.act)
     /\ Need(~e.src_changed, "SourceTreeOnlyChangedByTheUser", e.act)
     /\ Need(~e.outside, "NothingCreatedOutsideBuildDirAndDestdir", e.act)
     /\ Need((e.act = "build" /\ ExpectNoWork) => e.ran = 0, "BuildAfterBuildDoesNothing", e.ran)
     /\ Need((e.act = "build" /\ ~ExpectNoWork) => e.ran > 0, "OutOfDateBuildRunsSomething", e.ran)
     /\ Need(e.act \in {"build", "install", "move_builddir"} => e.products_ok, "ProductsExistAndRun", e.act)
     /\ Need(e.act = "install" => e.staged > 0, "InstallStagesFiles", e.staged)
     /\ Need(e.act = "uninstall" => e.staged = 0, "UninstallRemovesStagedFiles", e.staged)
     /\ Act(e.act)
  /\ l' = l + 1 /\ UNCHANGED t
TraceSpec == TraceInit /\ [][TraceNext]_tvars
=============================================================================
