------------------------------ MODULE EnvVars_Ind ------------------------------
(* Unbounded check of C09(a) with Apalache: ChangesReproduceCurrent is an inductive *)
(* invariant of the EnvVarDict mutators (EnvVarsCore.tla) - for ANY number of        *)
(* operations, over three keys and two values.                                       *)
(*   apalache-mc check --cinit=CInit --init=IndInit --next=IndNext --inv=IndInv --length=1 *)
(*   apalache-mc check --cinit=CInit --init=Init0   --next=IndNext --inv=IndInv --length=0 *)
EXTENDS EnvVarsCore
CInit == Keys = {"K1", "K2", "K3"} /\ Vals = {"a", "b"}
\* @type: (Str -> Str, Set(Str)) => Bool;
IsMap(m, R) == DOMAIN m \subseteq Keys /\ \A k \in DOMAIN m : m[k] \in R
TypeOK == IsMap(initial, Vals) /\ IsMap(current, Vals) /\ IsMap(changes, Vals \cup {None})
IndInv == TypeOK /\ ChangesReproduceCurrent
\* any three maps of the right shape that satisfy the invariant
IndInit == /\ \E D \in SUBSET Keys : \E f \in [D -> Vals] : initial = f
           /\ \E D \in SUBSET Keys : \E f \in [D -> Vals] : current = f
           /\ \E D \in SUBSET Keys : \E f \in [D -> Vals \cup {None}] : changes = f
           /\ IndInv
Init0 == /\ \E D \in SUBSET Keys : \E f \in [D -> Vals] : initial = f
         /\ current = initial /\ changes = [x \in {} |-> None]
IndNext == /\ UNCHANGED initial
           /\ \/ \E k \in Keys, v \in Vals : C_Set(k, v) \/ C_SetDefault(k, v)
              \/ \E k \in Keys : C_Del(k) \/ C_DelMissing(k) \/ C_Pop(k)
              \/ C_Clear \/ C_PopItem \/ C_Reset \/ C_JsonRT
              \/ \E D \in SUBSET Keys : \E m \in [D -> Vals] : C_Update(m)
=============================================================================
