---------------------------- MODULE Paths_Trace ----------------------------
(* Trace validation for C12: recorded executions of the real PosixPath /     *)
(* WindowsPath objects against the reference algebra of Paths.tla.           *)
(* File format (JSON): a list of traces [id, events]; every event is         *)
(*   [op, ...arguments..., obs]   obs = projected value after the call, or   *)
(*   [rejected |-> TRUE] if the call raised ValueError.                      *)
EXTENDS Paths, Json, IOUtils

Traces == JsonDeserialize(IOEnv.TRACE_FILE)

VARIABLES t, l
tvars == <<p, q, n, hist, t, l>>

Proj(v) == v        \* path values are logged in exactly the record shape of Paths.tla

\* (bindir and mandir are given relative to other install directories: a chain of base directories)
Bases == [srcdir |-> <<"s">>, builddir |-> <<"b b">>, prefix |-> <<"usr", "p">>, absolute |-> <<>>,
          bindir |-> <<"usr", "p", "bin d">>, mandir |-> <<"usr", "p", "share", "man">>]
Chained == {"bindir", "mandir"}
RealStr(v) == (IF v.destdir /\ v.root \notin Chained THEN <<"d">> ELSE <<>>) \o Bases[v.root]
              \o (IF v.drive THEN <<"C:">> ELSE <<>>) \o v.comps

\* the value the reference assigns to the call logged in event e, given current value cur
RefVal(e, cur) ==
  CASE e.op = "New"         -> New(e.raw, e.root, e.destdir, e.dirarg)
    [] e.op = "Parent"      -> Parent(cur)
    [] e.op = "Append"      -> AppendRaw(cur, e.raw)
    [] e.op = "AsDirectory" -> AsDirectory(cur)
    [] e.op = "Reroot"      -> Reroot(cur, e.root)
    [] e.op = "JsonRT"      -> cur
    [] e.op = "RelAppend"   -> RelAppend(cur, New(e.raw, (IF cur.root = "absolute" THEN "srcdir" ELSE cur.root), e.destdir, "none"))
    [] OTHER                -> cur

Say(x) == PrintT(ToJson(x))
Reject(clause, e, expected) ==
   Say(<<"REJECT", Traces[t].id, clause, l, e.op, expected>>) /\ FALSE

\* observation-only events (do not change the value)
\* NB: in an action TLC explores both sides of a disjunction, so verdicts use IF/ELSE.
Need(cond, clause, e, expected) == IF cond THEN TRUE ELSE Reject(clause, e, expected)
CheckCmp(e) ==     \* e.other = projected other value, e.eq, e.hasheq
   /\ Need(e.eq = SameLoc(p, e.other), "EqualityIsSameLocation", e, SameLoc(p, e.other))
   /\ Need(e.eq => e.hasheq, "EqualImpliesEqualHash", e, TRUE)
CheckCommon(e) ==  \* e.others = seq of values, e.obs = [none|->TRUE] | [rejected|->TRUE] | value
   LET ps == <<p>> \o e.others IN
   IF \E i \in 1..Len(ps) : ps[i].root # p.root
        THEN Need(e.obs = [none |-> TRUE], "CommonPrefixNoneIffRootsDiffer", e, "None")
   ELSE IF ~HasCommon(ps)   \* same root, different drives: no common ancestor; None or ValueError
        THEN Need(e.obs \in {[none |-> TRUE], Rejected}, "CommonPrefixDifferentDrives", e, "None")
   ELSE Need("comps" \in DOMAIN e.obs /\ e.obs.comps = CommonPrefix(ps) /\ e.obs.root = p.root,
             "CommonPrefixIsLongestCommonAncestor", e, CommonPrefix(ps))
CheckUnique(e) ==  \* e.others, e.result = seq of values
   LET ps == <<p>> \o e.others IN
   Need(IsMinimalCover(e.result, ps), "UniqueTreesMinimalCover", e, ps)
CheckStr(e) ==
   Need((p.drive /\ p.destdir) \/ e.str = RealStr(p), "RealizeEqualsJoin", e, RealStr(p))

TraceInit == /\ t \in 1..Len(Traces) /\ l = 1
             /\ p = Rejected /\ q = Rejected /\ n = 0 /\ hist = <<>>

Observe(e) == CASE e.op = "Cmp" -> CheckCmp(e)
                [] e.op = "CommonPrefix" -> CheckCommon(e)
                [] e.op = "UniqueTrees" -> CheckUnique(e)
                [] e.op = "Str" -> CheckStr(e)

TraceNext ==
  /\ l <= Len(Traces[t].events)
  /\ LET e == Traces[t].events[l] IN
     IF e.op \in {"Cmp", "CommonPrefix", "UniqueTrees", "Str"}
     THEN Observe(e) /\ UNCHANGED p
     ELSE LET v == RefVal(e, p) IN
          \* parent of the absolute root: raising and returning the root itself are both fine
          /\ IF e.op = "Parent" /\ p.comps = <<>> /\ p.root = "absolute"
                THEN Need(e.obs \in {Rejected, AsDirectory(p)}, "ParentOfAbsoluteRoot", e, v)
                ELSE Need(e.obs = Proj(v), "ResultEqualsReference", e, v)
          /\ (IsPath(v) => Normal(v))
          /\ p' = (IF IsPath(v) THEN v ELSE p)
  /\ l' = l + 1 /\ UNCHANGED <<q, n, hist, t>>

TraceSpec == TraceInit /\ [][TraceNext]_tvars

Accepted == (l = Len(Traces[t].events) + 1) => Say(<<"ACCEPT", Traces[t].id>>)
=============================================================================
