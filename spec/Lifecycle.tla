-------------------------------- MODULE Lifecycle --------------------------------
(* Composition: the life of one build directory.  Unconfigured -> Configured, then   *)
(* any interleaving of user actions.  This module carries the cross-cutting          *)
(* guarantees that no single property check exercises in sequence: the source tree   *)
(* is only ever changed by the user's own edits (C05), a build right after a build   *)
(* does nothing (C03), clean followed by build recreates every product (C07),        *)
(* regeneration keeps the build usable (C08), dist/install/uninstall work from any    *)
(* reachable state (C15, C18).                                                        *)
(* State is deliberately abstract (what a user can observe from outside).            *)
EXTENDS Naturals, Sequences, TLC
CONSTANT MaxSteps
VARIABLES configured,   \* a build directory exists
          fresh,        \* products are up to date with the sources and the script
          products,     \* the products exist in the build directory
          installed,    \* files are staged under DESTDIR
          srcver,       \* number of user edits so far (the only legitimate source-tree changes)
          steps, hist
vars == <<configured, fresh, products, installed, srcver, steps, hist>>
Init == /\ configured = FALSE /\ fresh = FALSE /\ products = FALSE /\ installed = FALSE
        /\ srcver = 0 /\ steps = 0 /\ hist = <<>>
Do(name) == steps < MaxSteps /\ steps' = steps + 1 /\ hist' = Append(hist, name)
Configure == /\ ~configured /\ configured' = TRUE /\ Do("configure")
             /\ UNCHANGED <<fresh, products, installed, srcver>>
EditSource == /\ configured /\ srcver' = srcver + 1 /\ fresh' = FALSE /\ Do("edit_source")
              /\ UNCHANGED <<configured, products, installed>>
\* (appending an unrelated command to the script makes the build files stale, not the products)
EditScript == /\ configured /\ srcver' = srcver + 1 /\ Do("edit_script")
              /\ UNCHANGED <<configured, fresh, products, installed>>
AddSource == /\ configured /\ srcver' = srcver + 1 /\ fresh' = FALSE /\ Do("add_source")
             /\ UNCHANGED <<configured, products, installed>>
Build == /\ configured /\ fresh' = TRUE /\ products' = TRUE /\ Do("build")
         /\ UNCHANGED <<configured, installed, srcver>>
Regenerate == /\ configured /\ Do("regenerate") /\ UNCHANGED <<configured, fresh, products, installed, srcver>>
Clean == /\ configured /\ products' = FALSE /\ fresh' = FALSE /\ Do("clean")
         /\ UNCHANGED <<configured, installed, srcver>>
Dist == /\ configured /\ Do("dist") /\ UNCHANGED <<configured, fresh, products, installed, srcver>>
Install == /\ configured /\ fresh' = TRUE /\ products' = TRUE /\ installed' = TRUE /\ Do("install")
           /\ UNCHANGED <<configured, srcver>>
Uninstall == /\ configured /\ installed /\ installed' = FALSE /\ Do("uninstall")
             /\ UNCHANGED <<configured, fresh, products, srcver>>
MoveBuildDir == /\ configured /\ products /\ Do("move_builddir")
                /\ UNCHANGED <<configured, fresh, products, installed, srcver>>
Next == Configure \/ EditSource \/ EditScript \/ AddSource \/ Build \/ Regenerate \/ Clean \/ Dist
        \/ Install \/ Uninstall \/ MoveBuildDir
Spec == Init /\ [][Next]_vars
\* what an observer must see after the step named in the last history entry
\*   nothing_to_do : a build request would run no step
ExpectNoWork == fresh /\ products
=============================================================================
