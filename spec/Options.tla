--------------------------------- MODULE Options ---------------------------------
(* C16: semantic options and their documented effect, as predicates over a probe    *)
(* record measured on the real compiler / linker / program.                         *)
(* option = [o |-> name, v |-> value, where |-> placement]                          *)
(* facts  = [compile_exit, link_exit, run_exit, defval (value printed for the probe  *)
(*   macro, "" if undefined), envdef, std (number printed for __STDC_VERSION__ or    *)
(*   __cplusplus), inc, optimize, optimize_size, lto, pic, reentrant, asan, debug,   *)
(*   dynamic, ext, pch, warn_exit, warned]                                          *)
EXTENDS Naturals, Sequences, FiniteSets, TLC
StdValue(v) == CASE v = "c99" -> 199901 [] v = "c11" -> 201112 [] v = "gnu11" -> 201112 [] v = "c17" -> 201710
                 [] v = "c++11" -> 201103 [] v = "c++14" -> 201402 [] v = "c++17" -> 201703 [] OTHER -> 0
Effect(opt, f) ==
  CASE opt.o = "define"   -> f.defval = opt.v
    [] opt.o = "envdef"   -> f.envdef                       \* a -D flag given through CFLAGS / CXXFLAGS
    [] opt.o = "std"      -> f.std = StdValue(opt.v)
    [] opt.o = "include"  -> f.inc
    \* a system include directory: found like any other; one that is a compiler default directory
    \* must not disturb the standard headers (the program still compiles and runs)
    [] opt.o = "sysinclude" -> (IF opt.v = "incdir" THEN f.inc ELSE f.stdlib)
    [] opt.o = "warning"  -> (CASE opt.v = "disable" -> f.warn_exit = 0 /\ ~f.warned
                                [] opt.v = "all" -> f.warned
                                [] opt.v = "all+error" -> f.warn_exit # 0
                                [] OTHER -> TRUE)
    [] opt.o = "debug"    -> f.debug
    [] opt.o = "optimize" -> (CASE opt.v = "disable" -> ~f.optimize
                                [] opt.v = "speed" -> f.optimize /\ ~f.optimize_size
                                [] opt.v = "size" -> f.optimize_size
                                [] opt.v = "linktime" -> f.lto
                                [] OTHER -> TRUE)
    [] opt.o = "pic"      -> f.pic
    [] opt.o = "pthread"  -> f.reentrant
    [] opt.o = "sanitize" -> f.asan
    [] opt.o = "static"   -> ~f.dynamic
    [] opt.o = "lib"      -> f.ext
    [] opt.o = "envlib"   -> f.ext2                         \* a library given through LDLIBS (found through LDFLAGS=-L...)
    [] opt.o = "pch"      -> f.pch
    [] OTHER -> TRUE
\* combinations that the toolchain itself cannot satisfy (not bfg9000's doing)
SharedLibFiles == {"libext.so", "libext.api.so", "libext-1.2.so", "libext.so.x.so"}
Incompatible(a, b) == {a.o, b.o} = {"sanitize", "static"}
                      \/ ({a.o, b.o} = {"optimize"} /\ a.v # b.v)
                      \/ ({a.o, b.o} = {"std"} /\ a.v # b.v)
                      \/ ({a.o, b.o} = {"warning"} /\ a.v # b.v)
                      \/ ({a.o, b.o} = {"define"} /\ a.v # b.v)
                      \/ ({a.o, b.o} = {"include"} /\ a.v # b.v)    \* the same directory twice
                      \/ ({a.o, b.o} = {"lib"} /\ a.v # b.v)        \* two definitions of the same function
                      \* a fully static link cannot take a shared object
                      \/ (\E x \in {a, b}, y \in {a, b} : x.o = "static" /\ y.o = "lib" /\ y.v \in SharedLibFiles)
=============================================================================
