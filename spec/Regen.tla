------------------------------ MODULE Regen ------------------------------
(* Design model of the regeneration state machine (C08/C10): source tree with   *)
(* directory mtimes, the persistent files of the build directory, one action per *)
(* file-system mutation of `regenerate --lazy` in the order the shim observes on *)
(* the real code, the backend's own regeneration rule, and a crash.              *)
EXTENDS Naturals, FiniteSets, TLC, Json
CONSTANTS Names,        \* file names that match the pattern
          MaxClock, AllowCrash, MaxEdits,
          Backend,      \* "make" | "ninja": what the build tool does with a truncated build file
          AtomicMk,     \* TRUE: the build file is written to a temporary file and renamed into place
                        \* (the repaired Ninja writer); FALSE: truncated in place (Make writer, pinned Ninja writer)
          Fixed         \* TRUE: the repaired algorithm (depfile replaced atomically, a cache newer than the
                        \* outputs counts as out of date, the depfile is refreshed when regeneration is
                        \* skipped); FALSE: the pinned tree's algorithm (kept as a vacuity guard)
Dirs == {"R", "G"}      \* R = srcdir (always exists), G = optional subdirectory
\* script version v: the pattern's literal base directory
Base(v) == IF v = 1 THEN "R" ELSE "G"

VARIABLES dirs, files, dmt, sver, smt,     \* source tree
          mk, cache, deps, envf,           \* build directory
          clock, pc, loc, crashes, edits
vars == <<dirs, files, dmt, sver, smt, mk, cache, deps, envf, clock, pc, loc, crashes, edits>>

Absent == [st |-> "absent"]
Walk(v, ds, fs) == IF Base(v) \in ds
                   THEN [found |-> {f \in fs : f[1] = Base(v)}, seen |-> {Base(v)}]
                   ELSE [found |-> {}, seen |-> {}]
Fresh == LET w == Walk(sver, dirs, files) IN [sver |-> sver, found |-> w.found, inc |-> w.seen # {}]

Init == /\ dirs \in {{"R"}, {"R","G"}} /\ files = {} /\ dmt = [d \in Dirs |-> 0]
        /\ sver \in {1,2} /\ smt = 0
        /\ mk = Absent /\ cache = Absent /\ deps = Absent /\ envf = Absent
        /\ clock = 1 /\ pc = "unconfigured" /\ loc = [x |-> 0] /\ crashes = "none" /\ edits = 0

Tick == clock' = clock + 1

(* ---- a full (non-lazy) configure, atomic: establishes the good starting state ---- *)
Configure == /\ pc = "unconfigured"
             /\ LET w == Walk(sver, dirs, files) IN
                /\ envf' = [st |-> "ok"]
                /\ deps' = IF w.seen # {} THEN [st |-> "ok", dirs |-> w.seen] ELSE deps
                /\ cache' = [st |-> "ok", sver |-> sver, found |-> w.found, mt |-> clock]
                /\ mk' = [st |-> "ok", desc |-> [sver |-> sver, found |-> w.found, inc |-> w.seen # {}], mt |-> clock]
             /\ pc' = "idle" /\ Tick
             /\ UNCHANGED <<dirs, files, dmt, sver, smt, loc, crashes, edits>>

(* ---- user edits (only while no bfg process runs) ---- *)
CanEdit == pc = "idle" /\ edits < MaxEdits
AddFile(d, n) == /\ CanEdit /\ d \in dirs /\ <<d, n>> \notin files
                 /\ files' = files \cup {<<d, n>>} /\ dmt' = [dmt EXCEPT ![d] = clock]
                 /\ UNCHANGED <<dirs, sver, smt>>
RemoveFile(d, n) == /\ CanEdit /\ <<d, n>> \in files
                    /\ files' = files \ {<<d, n>>} /\ dmt' = [dmt EXCEPT ![d] = clock]
                    /\ UNCHANGED <<dirs, sver, smt>>
Mkdir == /\ CanEdit /\ "G" \notin dirs /\ dirs' = dirs \cup {"G"}
         /\ dmt' = [dmt EXCEPT !["R"] = clock, !["G"] = clock] /\ UNCHANGED <<files, sver, smt>>
Rmdir == /\ CanEdit /\ "G" \in dirs /\ dirs' = dirs \ {"G"}
         /\ files' = {f \in files : f[1] # "G"}
         /\ dmt' = [dmt EXCEPT !["R"] = clock] /\ UNCHANGED <<sver, smt>>
EditScript == /\ CanEdit /\ sver' = 3 - sver /\ smt' = clock /\ UNCHANGED <<dirs, files, dmt>>
Edit == /\ (\E d \in Dirs, n \in Names : AddFile(d, n) \/ RemoveFile(d, n)) \/ Mkdir \/ Rmdir \/ EditScript
        /\ edits' = edits + 1 /\ Tick
        /\ UNCHANGED <<mk, cache, deps, envf, pc, loc, crashes>>

(* ---- the backend's own regeneration step: `make Makefile` ---- *)
Watched == IF mk.st = "ok" /\ mk.desc.inc /\ deps.st = "ok" THEN deps.dirs ELSE {}
OutOfDate == \/ smt > mk.mt
             \/ \E d \in Watched : d \notin dirs \/ dmt[d] > mk.mt
MakeCheck == /\ pc \in {"idle", "done0"}
             /\ IF mk.st = "absent" \/ (mk.st = "trunc" /\ Backend = "make")
                   \/ (mk.st = "ok" /\ mk.desc.inc /\ deps.st = "absent")
                  THEN pc' = "failed"                 \* the tool cannot even load the file: visible
                \* an empty build.ninja is a valid manifest with nothing to do (and no regeneration rule)
                ELSE IF mk.st = "trunc" THEN pc' = "uptodate"
                ELSE IF OutOfDate THEN pc' = "loadenv"
                ELSE pc' = "uptodate"
             /\ UNCHANGED <<dirs, files, dmt, sver, smt, mk, cache, deps, envf, clock, loc, crashes, edits>>
Ack == /\ pc \in {"uptodate", "failed"} /\ pc' = "idle"
       /\ UNCHANGED <<dirs, files, dmt, sver, smt, mk, cache, deps, envf, clock, loc, crashes, edits>>

(* ---- bfg9000 regenerate --lazy, one action per file-system mutation / decision ---- *)
Keep == UNCHANGED <<dirs, files, dmt, sver, smt, crashes, edits>>
LoadEnv == /\ pc = "loadenv" /\ pc' = (IF envf.st = "ok" THEN "env_open" ELSE "failed")
           /\ UNCHANGED <<mk, cache, deps, envf, clock, loc>> /\ Keep
EnvOpen == /\ pc = "env_open" /\ envf' = [st |-> "trunc"] /\ pc' = "env_close" /\ Tick
           /\ UNCHANGED <<mk, cache, deps, loc>> /\ Keep
EnvClose == /\ pc = "env_close" /\ envf' = [st |-> "ok"] /\ pc' = "check" /\ Tick
            /\ UNCHANGED <<mk, cache, deps, loc>> /\ Keep
Check == /\ pc = "check"
         /\ IF cache.st = "absent" THEN pc' = "script"
            ELSE IF cache.st = "trunc" THEN pc' = "failed"
            ELSE IF smt > (IF mk.st = "absent" THEN 0 ELSE mk.mt) THEN pc' = "script"
            \* repaired: the cache is saved before the outputs are written, so a cache that is newer
            \* than the outputs means the last regeneration did not get as far as writing them
            ELSE IF Fixed /\ cache.mt > (IF mk.st = "absent" THEN 0 ELSE mk.mt) THEN pc' = "script"
            ELSE IF Walk(cache.sver, dirs, files).found # cache.found THEN pc' = "script"
            ELSE pc' = (IF Fixed /\ Walk(cache.sver, dirs, files).seen # {} THEN "skip_deps" ELSE "touch")
         /\ UNCHANGED <<mk, cache, deps, envf, clock, loc>> /\ Keep
\* repaired: regeneration is skipped, but the directories to watch may have changed: the depfile is
\* rewritten (atomically) from the walk just done
SkipDeps == /\ pc = "skip_deps" /\ deps' = [st |-> "ok", dirs |-> Walk(cache.sver, dirs, files).seen]
            /\ pc' = "touch" /\ Tick /\ UNCHANGED <<mk, cache, envf, loc>> /\ Keep
Touch == /\ pc = "touch" /\ pc' = "done0"
         /\ mk' = (IF mk.st = "absent" THEN mk ELSE [mk EXCEPT !.mt = clock]) /\ Tick
         /\ UNCHANGED <<cache, deps, envf, loc>> /\ Keep
Script == /\ pc = "script" /\ loc' = Walk(sver, dirs, files)
          /\ pc' = (IF loc'.seen # {} THEN "deps_open" ELSE "cache_open")
          /\ UNCHANGED <<mk, cache, deps, envf, clock>> /\ Keep
\* pinned tree: .bfg_find_deps is truncated in place; repaired: a temporary file is written and
\* renamed into place (DepsRename), so the open/close steps do not touch the depfile itself
DepsOpen == /\ pc = "deps_open" /\ deps' = (IF Fixed THEN deps ELSE [st |-> "trunc", dirs |-> {}])
            /\ pc' = "deps_close" /\ Tick /\ UNCHANGED <<mk, cache, envf, loc>> /\ Keep
DepsClose == /\ pc = "deps_close" /\ deps' = (IF Fixed THEN deps ELSE [st |-> "ok", dirs |-> loc.seen])
             /\ pc' = (IF Fixed THEN "deps_rename" ELSE "cache_open") /\ Tick
             /\ UNCHANGED <<mk, cache, envf, loc>> /\ Keep
DepsRename == /\ pc = "deps_rename" /\ deps' = [st |-> "ok", dirs |-> loc.seen] /\ pc' = "cache_open" /\ Tick
              /\ UNCHANGED <<mk, cache, envf, loc>> /\ Keep
CacheOpen == /\ pc = "cache_open" /\ cache' = [st |-> "trunc"] /\ pc' = "cache_close" /\ Tick
             /\ UNCHANGED <<mk, deps, envf, loc>> /\ Keep
CacheClose == /\ pc = "cache_close" /\ cache' = [st |-> "ok", sver |-> sver, found |-> loc.found, mt |-> clock]
              /\ pc' = "mk_open" /\ Tick /\ UNCHANGED <<mk, deps, envf, loc>> /\ Keep
NewMk == [st |-> "ok", desc |-> [sver |-> sver, found |-> loc.found, inc |-> loc.seen # {}], mt |-> clock]
MkOpen == /\ pc = "mk_open" /\ mk' = (IF AtomicMk THEN mk ELSE [st |-> "trunc", mt |-> clock])
          /\ pc' = "mk_close" /\ Tick /\ UNCHANGED <<cache, deps, envf, loc>> /\ Keep
MkClose == /\ pc = "mk_close" /\ mk' = (IF AtomicMk THEN mk ELSE NewMk)
           /\ pc' = (IF AtomicMk THEN "mk_rename" ELSE "done0") /\ Tick
           /\ UNCHANGED <<cache, deps, envf, loc>> /\ Keep
MkRename == /\ pc = "mk_rename" /\ mk' = NewMk /\ pc' = "done0" /\ Tick
            /\ UNCHANGED <<cache, deps, envf, loc>> /\ Keep
Running == pc \in {"loadenv","env_open","env_close","check","skip_deps","touch","script","deps_open",
                   "deps_close","deps_rename","cache_open","cache_close","mk_open","mk_close","mk_rename"}
Crash == /\ AllowCrash /\ Running /\ crashes = "none" /\ crashes' = pc /\ pc' = "idle"
         /\ UNCHANGED <<dirs, files, dmt, sver, smt, mk, cache, deps, envf, clock, loc, edits>>

Next == Configure \/ Edit \/ MakeCheck \/ Ack \/ LoadEnv \/ EnvOpen \/ EnvClose \/ Check \/ Touch
        \/ Script \/ DepsOpen \/ DepsClose \/ DepsRename \/ SkipDeps \/ CacheOpen \/ CacheClose \/ MkOpen \/ MkClose \/ MkRename \/ Crash
Spec == Init /\ [][Next]_vars
Bound == clock <= MaxClock
BaseExists == Base(sver) \in dirs /\ (mk.st = "ok" => Base(mk.desc.sver) \in dirs)

(* ---- the properties ---- *)
Success == pc \in {"done0", "uptodate"}
EqualsFresh == Success => (mk.st = "ok" /\ mk.desc = Fresh)
Report == EqualsFresh \/ PrintT(ToJson(<<"VIOL", crashes, pc>>))           \* C08 / C10
Converges   == (pc = "done0" /\ mk.st = "ok") => ~OutOfDate             \* C08
=============================================================================
