------------------------------ MODULE Lifecycle_Gen ------------------------------
(* One pseudo-random walk of Lifecycle.tla per seed.                                *)
EXTENDS Lifecycle, Rng, Json
CONSTANTS NSeeds, SeedBase
VARIABLE rng
GenInit == Init /\ rng \in { SeedOf(i, SeedBase) : i \in 1..NSeeds }
GenNext == /\ steps < MaxSteps /\ rng' = Nth(rng, 3)
           /\ LET c == Below(Nth(rng, 1), 16) IN
              IF ~configured THEN Configure
              ELSE CASE c \in {0, 1} -> EditSource [] c = 2 -> EditScript [] c = 3 -> AddSource
                     [] c \in {4, 5, 6} -> Build [] c = 7 -> Regenerate [] c \in {8, 9} -> Clean
                     [] c = 10 -> Dist [] c \in {11, 12} -> Install
                     [] c = 13 -> (IF installed THEN Uninstall ELSE Build)
                     [] c = 14 -> (IF products THEN MoveBuildDir ELSE Build)
                     [] OTHER -> Build
GenSpec == GenInit /\ [][GenNext]_<<vars, rng>>
Emit == (steps = MaxSteps) => PrintT(ToJson(hist))
=============================================================================
