------------------------------- MODULE Link_Trace -------------------------------
(* C14 contract on real builds: every final link succeeds, the program prints the  *)
(* value the DAG defines, in place and after the build directory was moved.        *)
(* events: [ev |-> "Config", kind, deps, elibs, ecall (sequences indexed by lib)]   *)
(*         [ev |-> "Build", exit]  [ev |-> "Run", exit, out]  [ev |-> "Move"]        *)
(*         [ev |-> "RunRaw", exit, out, want]  [ev |-> "Symbols", want, defined]     *)
EXTENDS Link, IOUtils
Traces == JsonDeserialize(IOEnv.TRACE_FILE)
VARIABLES t, l, built
tvars == <<t, l, built, kind, deps, uses, elibs, ecall>>
Say(x) == PrintT(ToJson(x))
Reject(clause, info) == Say(<<"REJECT", Traces[t].id, clause, l, info>>) /\ FALSE
Need(cond, clause, info) == IF cond THEN TRUE ELSE Reject(clause, info)
TraceInit == /\ t \in 1..Len(Traces) /\ l = 1 /\ built = FALSE
             /\ kind = <<>> /\ deps = <<>> /\ uses = <<>> /\ elibs = <<>> /\ ecall = <<>>
TraceNext ==
  /\ l <= Len(Traces[t].events)
  /\ LET e == Traces[t].events[l] IN
     CASE e.ev = "Config" ->
            /\ kind' = e.kind /\ deps' = e.deps /\ elibs' = e.elibs /\ ecall' = e.ecall
            /\ uses' = [i \in 1..Len(e.deps) |-> ToSet(e.deps[i])] /\ UNCHANGED built
            /\ (~AllLinksOK(e.kind, e.deps, [i \in 1..Len(e.deps) |-> ToSet(e.deps[i])], e.elibs, e.ecall)
                  => Say(<<"INFO", "DESIGN-PREDICTS-LINK-FAILURE", Traces[t].id>>))
       [] e.ev = "Build" -> Need(e.exit = 0, "EveryFinalLinkSucceeds", e.exit) /\ built' = TRUE
                            /\ UNCHANGED <<kind, deps, uses, elibs, ecall>>
       [] e.ev = "Run" -> /\ Need(e.exit = 0, "ProgramRunsWithoutEnvironmentSetup", e.exit)
                          /\ Need(e.out = ExpectedOutput(uses, elibs, ecall), "ProgramPrintsTheDefinedValue", e.out)
                          /\ UNCHANGED <<built, kind, deps, uses, elibs, ecall>>
       \* whole-archive cases (outside the library-DAG model): the harness states what the program must
       \* print and which symbols the linked file must define
       [] e.ev = "RunRaw" -> /\ Need(e.exit = 0, "ProgramRunsWithoutEnvironmentSetup", e.exit)
                             /\ Need(e.out = e.want, "ProgramPrintsTheDefinedValue", e.out)
                             /\ UNCHANGED <<built, kind, deps, uses, elibs, ecall>>
       [] e.ev = "Symbols" -> /\ Need(ToSet(e.want) \subseteq ToSet(e.defined), "WholeArchiveKeepsEveryObject",
                                      ToSet(e.want) \ ToSet(e.defined))
                              /\ UNCHANGED <<built, kind, deps, uses, elibs, ecall>>
       [] e.ev = "Move" -> UNCHANGED <<built, kind, deps, uses, elibs, ecall>>
  /\ l' = l + 1 /\ UNCHANGED t
TraceSpec == TraceInit /\ [][TraceNext]_tvars
=============================================================================
