------------------------------ MODULE Determ_Trace ------------------------------
(* C13 contract: configuring the same source tree with the same configuration     *)
(* yields byte-identical primary build files in every invocation context, and     *)
(* auxiliary files that are equal as sets of entries.                             *)
(* events: [ev |-> "Run", ctx |-> [seed, cwd, form, noise], exit, primary (seq of *)
(*          [file, digest]), aux (seq of [file, entries (sorted seq)])]           *)
(* The context space (spec constants) is enumerated by TLC in Determ_Gen.         *)
EXTENDS Naturals, Sequences, FiniteSets, TLC, Json, IOUtils
Traces == JsonDeserialize(IOEnv.TRACE_FILE)
VARIABLES t, l, first
tvars == <<t, l, first>>
Say(x) == PrintT(ToJson(x))
Reject(clause, info) == Say(<<"REJECT", Traces[t].id, clause, l, info>>) /\ FALSE
Need(cond, clause, info) == IF cond THEN TRUE ELSE Reject(clause, info)
TraceInit == t \in 1..Len(Traces) /\ l = 1 /\ first = <<>>
Differing(a, b) == { a[i].file : i \in { j \in 1..Len(a) : j > Len(b) \/ a[j] # b[j] } }
TraceNext ==
  /\ l <= Len(Traces[t].events)
  /\ LET e == Traces[t].events[l] IN
     /\ Need(e.exit = 0, "ConfigureSucceeds", e.ctx)
     /\ IF first = <<>> THEN first' = e
        ELSE /\ Need(e.primary = first.primary, "PrimaryFilesByteIdentical", <<e.ctx, Differing(e.primary, first.primary)>>)
             /\ Need(e.aux = first.aux, "AuxiliaryFilesEqualAsSets", <<e.ctx, Differing(e.aux, first.aux)>>)
             /\ UNCHANGED first
  /\ l' = l + 1 /\ UNCHANGED t
TraceSpec == TraceInit /\ [][TraceNext]_tvars
=============================================================================
