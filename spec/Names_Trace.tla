------------------------------- MODULE Names_Trace -------------------------------
(* C04 contract on recorded cycles.  event: [backend, role, name (symbols),         *)
(*  in_scope (the reference build file completed the same cycle), configure_exit,    *)
(*  created, uptodate, noticed, cleaned, installed, uninstalled (TRUE for roles that  *)
(*  install nothing)]                                                                *)
EXTENDS Names, Json, IOUtils
Traces == JsonDeserialize(IOEnv.TRACE_FILE)
VARIABLES t, l
tvars == <<t, l>>
Say(x) == PrintT(ToJson(x))
Reject(clause, info) == Say(<<"REJECT", Traces[t].id, clause, l, info>>) /\ FALSE
Need(cond, clause, info) == IF cond THEN TRUE ELSE Reject(clause, info)
TraceInit == t \in 1..Len(Traces) /\ l = 1
TraceNext ==
  /\ l <= Len(Traces[t].events)
  /\ LET e == Traces[t].events[l]
         scope == e.in_scope /\ ~PropertyExcludes(e.backend, e.name) IN
     /\ Need(scope => e.configure_exit = 0, "ConfigureAcceptsTheName", e.role)
     /\ Need(scope => e.created, "StepCreatesTheFileAtThatPath", e.role)
     /\ Need(scope => e.uptodate, "StepIsUpToDateAfterwards", e.role)
     /\ Need(scope => e.noticed, "ChangeOfNamedPrerequisiteIsNoticed", e.role)
     /\ Need(scope => e.cleaned, "CleanRemovesIt", e.role)
     \* roles "install" / "insthdr": the name as an argument of the install and uninstall commands
     /\ Need(scope => e.installed, "InstallPlacesTheFileUnderDestdir", e.role)
     /\ Need(scope => e.uninstalled, "UninstallRemovesIt", e.role)
     \* role "header": the name as a depfile entry; once no longer included, the header is deleted
     /\ Need(scope => e.hdrgone, "DeletedHeaderDoesNotBlockTheBuild", e.role)
     \* role "finddir": the name as a directory searched by find_files (an entry of the depfile
     \* that makes the build files regenerate): a new file in it is picked up; once the whole
     \* directory is removed the next build still goes through (without its files)
     /\ Need(scope => e.dirnoticed, "ChangeInSearchedDirectoryIsNoticed", e.role)
     /\ Need(scope => e.dirgone, "RemovedSearchedDirectoryDoesNotBlockTheBuild", e.role)
  /\ l' = l + 1 /\ UNCHANGED t
TraceSpec == TraceInit /\ [][TraceNext]_tvars
=============================================================================
