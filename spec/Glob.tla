--------------------------------- MODULE Glob ---------------------------------
(* C11.  Reference (documented) semantics of find_files over a directory tree, *)
(* and a design model of glob.py's compiled runs / three-valued match / pruned *)
(* walk.                                                                       *)
(*                                                                             *)
(* name      = sequence of one-symbol strings                                  *)
(* entry     = [path |-> sequence of names, dir |-> BOOLEAN]   (root: path <<>>) *)
(* component = [k |-> "ss"]                     the ** component               *)
(*           | [k |-> "c", items |-> <<item>>]  one path component             *)
(* item      = [k |-> "lit", c |-> sym] | [k |-> "star"] | [k |-> "any"]        *)
(*           | [k |-> "cls", neg |-> BOOLEAN, set |-> <<sym,...>>]              *)
(* pattern   = [comps |-> <<component>>, dirpat |-> BOOLEAN]                   *)
(* nameglob  = [items |-> <<item>>, dirpat |-> BOOLEAN]       (extra / exclude) *)
(* filter    = [include |-> <<pattern>>, type |-> "f"|"d"|"*"|"none",           *)
(*              extra |-> <<nameglob>>, exclude |-> <<nameglob>>]               *)
EXTENDS Naturals, Sequences, FiniteSets, TLC

Last(s) == s[Len(s)]
InSeq(x, s) == \E i \in 1..Len(s) : s[i] = x
IsPrefix(a, b) == Len(a) <= Len(b) /\ SubSeq(b, 1, Len(a)) = a

(* ---- one component: fnmatch ---------------------------------------------- *)
RECURSIVE CM(_, _, _, _)
CM(items, i, name, j) ==
  IF i > Len(items) THEN j > Len(name)
  ELSE LET it == items[i] IN
    IF it.k = "star" THEN CM(items, i + 1, name, j) \/ (j <= Len(name) /\ CM(items, i, name, j + 1))
    ELSE /\ j <= Len(name)
         /\ CASE it.k = "any" -> TRUE
              [] it.k = "lit" -> name[j] = it.c
              [] it.k = "cls" -> InSeq(name[j], it.set) # it.neg
         /\ CM(items, i + 1, name, j + 1)
CompMatch(items, name) == CM(items, 1, name, 1)
IsGlobComp(c) == IF c.k = "ss" THEN TRUE ELSE \E i \in 1..Len(c.items) : c.items[i].k # "lit"
LitName(c) == [i \in 1..Len(c.items) |-> c.items[i].c]

(* ---- reference: the documentation ----------------------------------------- *)
RECURSIVE RefM(_, _)
RefM(p, q) == IF p = <<>> THEN q = <<>>
              ELSE IF Head(p).k = "ss" THEN RefM(Tail(p), q) \/ (q # <<>> /\ RefM(p, Tail(q)))
              ELSE q # <<>> /\ CompMatch(Head(p).items, Head(q)) /\ RefM(Tail(p), Tail(q))

TypeOf(f, dirpat) == IF f.type # "none" THEN f.type ELSE IF dirpat THEN "d" ELSE "f"
TypeOK(ty, isdir) == ty = "*" \/ ((ty = "d") = isdir)

FirstGlob(p) == CHOOSE i \in 1..Len(p.comps) : IsGlobComp(p.comps[i]) /\ \A j \in 1..(i - 1) : ~IsGlobComp(p.comps[j])
HasGlob(p) == \E i \in 1..Len(p.comps) : IsGlobComp(p.comps[i])
BaseOf(p) == [i \in 1..(FirstGlob(p) - 1) |-> LitName(p.comps[i])]

\* the project's default find_exclude:  .#*   *~   #*#
DefaultExclude ==
  << [items |-> <<[k |-> "lit", c |-> "."], [k |-> "lit", c |-> "#"], [k |-> "star"]>>, dirpat |-> FALSE, anytype |-> TRUE],
     [items |-> <<[k |-> "star"], [k |-> "lit", c |-> "~"]>>, dirpat |-> FALSE, anytype |-> TRUE],
     [items |-> <<[k |-> "lit", c |-> "#"], [k |-> "star"], [k |-> "lit", c |-> "#"]>>, dirpat |-> FALSE, anytype |-> TRUE] >>

NameMatch(f, g, e) == e.path # <<>> /\ CompMatch(g.items, Last(e.path)) /\ TypeOK(TypeOf(f, g.dirpat), e.dir)
ExcludeHit(f, e) == (\E k \in 1..Len(f.exclude) : NameMatch(f, f.exclude[k], e))
                    \/ (\E k \in 1..Len(DefaultExclude) : NameMatch(f, DefaultExclude[k], e))
EntryAt(tree, path) == CHOOSE e \in tree : e.path = path
\* strictly below a pattern's literal base directory: the base itself is named by the caller and is
\* the root of the search, so exclude globs are not applied to it (nor to anything above it)
UnderSomeBase(f, path) == \E k \in 1..Len(f.include) :
                             IsPrefix(BaseOf(f.include[k]), path) /\ Len(path) > Len(BaseOf(f.include[k]))
\* q is removed by exclude: q itself, or a directory between a base and q, matches
Excluded(tree, f, q) ==
  \E n \in 1..Len(q.path) :
     LET pre == SubSeq(q.path, 1, n) IN
     UnderSomeBase(f, pre) /\ ExcludeHit(f, EntryAt(tree, pre))
Included(f, q) == \E k \in 1..Len(f.include) :
                     RefM(f.include[k].comps, q.path) /\ TypeOK(TypeOf(f, f.include[k].dirpat), q.dir)
Selected(tree, f) == { q \in tree : Included(f, q) /\ ~Excluded(tree, f, q) }
\* "extra" entries (distribution only): not selected, not excluded, basename matches an extra glob.
\* MustExtra: the ones every reading of the documentation has to find (siblings of selected entries)
ExtraOK(tree, f, q) == q.path # <<>> /\ ~Included(f, q) /\ ~Excluded(tree, f, q)
                       /\ \E k \in 1..Len(f.extra) : NameMatch(f, f.extra[k], q)
Parent(q) == SubSeq(q.path, 1, Len(q.path) - 1)
\* (only inside a searched tree: the parent directory lies at or below some pattern's literal base)
MustExtra(tree, f) == { q \in tree : /\ ExtraOK(tree, f, q)
                                     /\ \E k \in 1..Len(f.include) : IsPrefix(BaseOf(f.include[k]), Parent(q))
                                     /\ \E s \in Selected(tree, f) : s.path # <<>> /\ Parent(s) = Parent(q) }
MayExtra(tree, f) == { q \in tree : ExtraOK(tree, f, q) }

TreeOK(tree) == /\ [path |-> <<>>, dir |-> TRUE] \in tree
                /\ \A e \in tree : \A n \in 0..(Len(e.path) - 1) : [path |-> SubSeq(e.path, 1, n), dir |-> TRUE] \in tree
                /\ \A e1, e2 \in tree : e1.path = e2.path => e1 = e2
BasesExist(tree, f) == \A k \in 1..Len(f.include) : [path |-> BaseOf(f.include[k]), dir |-> TRUE] \in tree

(* ---- design model: glob.py (one include pattern, no extra/exclude) --------- *)
\* compiled runs: the components after the base, split at (collapsed) "**"
RECURSIVE Runs(_, _, _)
Runs(g, cur, ss) == IF g = <<>> THEN <<cur>>
                    ELSE IF Head(g).k = "ss" THEN (IF ss THEN Runs(Tail(g), cur, TRUE) ELSE <<cur>> \o Runs(Tail(g), <<>>, TRUE))
                    ELSE Runs(Tail(g), Append(cur, Head(g)), FALSE)
RECURSIVE SumLen(_)
SumLen(rs) == IF rs = <<>> THEN 0 ELSE Len(Head(rs)) + SumLen(Tail(rs))
\* results: 0 = yes, 1 = no, 2 = never.   _match_glob_run -> <<result, rest>>
RunM(run, bits, first) ==
   LET n == Len(run) IN
   IF \E i \in 1..n : i <= Len(bits) /\ ~CompMatch(run[i].items, bits[i])
                      /\ \A j \in 1..(i - 1) : CompMatch(run[j].items, bits[j])
        THEN <<(IF first THEN 2 ELSE 1), <<>>>>
   ELSE IF Len(bits) < n THEN <<1, <<>>>>
   ELSE <<0, SubSeq(bits, n + 1, Len(bits))>>
RECURSIVE RunsM(_, _)
RunsM(rs, bits) ==
   IF Len(rs) = 1 THEN
        LET k == Len(rs[1]) IN
        IF Len(bits) < k THEN 1 ELSE RunM(rs[1], SubSeq(bits, Len(bits) - k + 1, Len(bits)), FALSE)[1]
   ELSE LET wiggle == Len(bits) - SumLen(rs)
            offs == { o \in 0..wiggle : RunM(rs[1], SubSeq(bits, o + 1, Len(bits)), FALSE)[1] = 0 }
        IN IF wiggle < 0 \/ offs = {} THEN 1
           ELSE LET o == CHOOSE x \in offs : \A y \in offs : x <= y
                IN RunsM(Tail(rs), RunM(rs[1], SubSeq(bits, o + 1, Len(bits)), FALSE)[2])
Match3(p, ty, q) ==      \* PathGlob.match with skip_base
   LET base == BaseOf(p)
       runs == Runs(SubSeq(p.comps, FirstGlob(p), Len(p.comps)), <<>>, FALSE)
       bits == SubSeq(q.path, Len(base) + 1, Len(q.path))
       r1 == RunM(runs[1], bits, TRUE) IN
   IF r1[1] # 0 THEN r1[1]
   ELSE IF Len(runs) > 1 THEN
        (LET r == RunsM(Tail(runs), r1[2]) IN IF r # 0 THEN r ELSE (IF TypeOK(ty, q.dir) THEN 0 ELSE 1))
   ELSE IF Len(r1[2]) > 0 THEN 2
   ELSE (IF TypeOK(ty, q.dir) THEN 0 ELSE 1)
\* pruned walk: q is visited iff it lies at/below the base and no proper ancestor below the base answered "never"
Visited(p, ty, q) == /\ IsPrefix(BaseOf(p), q.path)
                     /\ \A k \in (Len(BaseOf(p)) + 1)..(Len(q.path) - 1) :
                           Match3(p, ty, [path |-> SubSeq(q.path, 1, k), dir |-> TRUE]) # 2
FoundDesign(tree, p, ty) == { q \in tree : Visited(p, ty, q) /\ Match3(p, ty, q) = 0 }
=============================================================================
