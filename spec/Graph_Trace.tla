------------------------------- MODULE Graph_Trace -------------------------------
(* C03 contract: the build tool, run on the build file bfg9000 generated, executes  *)
(* exactly the steps the DESCRIBED graph (Script.tla) says are out of date.          *)
(* events:  [ev |-> "Script", decls]   [ev |-> "Configure", exit]                    *)
(*          [ev |-> "Build", goal, exit, ran (seq of target names whose action ran), *)
(*                  compiled (seq of [t, s] : source s compiled for target t)]       *)
(*          [ev |-> "Touch", f (file or ""), t (target whose output is touched or "")]*)
EXTENDS Script, Json, IOUtils
Traces == JsonDeserialize(IOEnv.TRACE_FILE)
VARIABLES t, l, script,
          must, may,         \* targets that must / may run at the next build that needs them
          omust, omay        \* same for compile events <<target, src>>
tvars == <<t, l, script, must, may, omust, omay>>
Say(x) == PrintT(ToJson(x))
Reject(clause, info) == Say(<<"REJECT", Traces[t].id, clause, l, info>>) /\ FALSE
Need(cond, clause, info) == IF cond THEN TRUE ELSE Reject(clause, info)

TraceInit == /\ t \in 1..Len(Traces) /\ l = 1 /\ script = <<>>
             /\ must = {} /\ may = {} /\ omust = {} /\ omay = {}

DoScript(e) == /\ script' = e.decls
               /\ must' = Acts(e.decls) /\ may' = Acts(e.decls)
               /\ omust' = Objs(e.decls) /\ omay' = Objs(e.decls)
DoConfigure(e) == Need(e.exit = 0, "ConfigureSucceeds", e.exit) /\ UNCHANGED <<script, must, may, omust, omay>>

\* the archive half of a dual-use library follows its objects (not the libraries the shared half links)
ArOf(P(_)) == { ArName(n) : n \in { m \in Duals(script) : \E o \in Objs(script) : o[1] = m /\ P(o) } }
ObjHitByFile(o, f, mode) == \/ ObjReadsFile(script, o, f) \/ (o[2].t # "" /\ ReadsFile(script, o[2].t, f, mode))
                            \/ (\E h \in TargetsOf(Decl(script, o[1]).ins) \cup CDeps(script, o) : ReadsFile(script, h, f, mode))
\* (what the script merely declares for it - libs= - it MAY follow as well, like a static library)
ArMay(S) == { ArName(n) : n \in Duals(script) \cap S }
AlwaysDown(mode) == LET D == UNION { DownTarget(script, a, mode) : a \in Always(script) } IN
                    D \cup ArOf(LAMBDA o : \E a \in Always(script) : ObjReadsTarget(script, o, a))
                      \cup (IF mode = "may" THEN ArMay(D) ELSE {})
DoBuild(e) ==
  LET nmust == (NeededMust(script, e.goal) \cap Acts(script)) \cup ArNeeded(script, e.goal)
      nmay == (Needed(script, e.goal) \cap Acts(script)) \cup ArNeeded(script, e.goal)
      ran == ToSet(e.ran)
      mustrun == (must \cup (AlwaysDown("must") \ SymCopies(script))) \cap nmust
      mayrun == (may \cup AlwaysDown("may")) \cap nmay
      comp == { <<e.compiled[i].t, e.compiled[i].s>> : i \in 1..Len(e.compiled) }
      cmust == { o \in omust : o[1] \in nmust } \cup { o \in Objs(script) : o[1] \in nmust /\ \E a \in Always(script) : ObjReadsTarget(script, o, a) }
      cmay == { o \in omay : o[1] \in nmay } \cup { o \in Objs(script) : o[1] \in nmay /\ \E a \in Always(script) : ObjReadsTargetM(script, o, a, "may") } IN
  /\ Need(e.exit = 0, "BuildSucceeds", e.goal)
  /\ Need(mustrun \subseteq ran, "EveryOutOfDateStepRuns", mustrun \ ran)
  \* (a symbolic-link copy with extra_deps that runs again is the recorded finding: reported as a SOFT
  \*  rejection - the verdict is the same, the rest of the history is still examined)
  /\ IF (ran \ mayrun) # {} /\ (ran \ mayrun) \subseteq SymX(script)
       THEN Say(<<"SOFT", Traces[t].id, "NoUpToDateStepRuns", l, ran \ mayrun>>)
       ELSE Need(ran \subseteq mayrun, "NoUpToDateStepRuns", ran \ mayrun)
  /\ Need(cmust \subseteq comp, "EveryOutOfDateObjectIsCompiled", cmust \ comp)
  /\ Need(comp \subseteq cmay, "NoUpToDateObjectIsCompiled", comp \ cmay)
  /\ Need(Len(e.compiled) = Cardinality(comp), "EachObjectCompiledOnce", Len(e.compiled))
  /\ must' = must \ nmust /\ may' = may \ nmust
  /\ omust' = { o \in omust : o[1] \notin nmust } /\ omay' = { o \in omay : o[1] \notin nmust }
  /\ UNCHANGED script

DoTouch(e) ==
  /\ IF e.f # ""
       THEN /\ must' = must \cup ((DownFile(script, e.f, "must") \cap Acts(script)) \ SymCopies(script))
                            \cup ArOf(LAMBDA o : ObjHitByFile(o, e.f, "must"))
            /\ may' = may \cup (DownFile(script, e.f, "may") \cap Acts(script))
                          \cup ArOf(LAMBDA o : ObjHitByFile(o, e.f, "may")) \cup ArMay(DownFile(script, e.f, "may"))
            \* objects compiled from the file (or from a header it is included by), and objects compiled
            \* from a generated source whose generating step is downstream of the file
            /\ omust' = omust \cup { o \in Objs(script) : ObjReadsFile(script, o, e.f) \/ (o[2].t # "" /\ ReadsFile(script, o[2].t, e.f, "must"))
                                                         \/ (\E h \in TargetsOf(Decl(script, o[1]).ins) \cup CDeps(script, o) : ReadsFile(script, h, e.f, "must")) }
            /\ omay' = omay \cup { o \in Objs(script) : ObjReadsFile(script, o, e.f) \/ (o[2].t # "" /\ ReadsFile(script, o[2].t, e.f, "may"))
                                                       \/ (\E h \in TargetsOf(Decl(script, o[1]).ins) \cup CDeps(script, o) : ReadsFile(script, h, e.f, "may")) }
       ELSE \* the output of target e.t was modified: its consumers are out of date (not e.t itself)
            /\ must' = must \cup (((DownTarget(script, e.t, "must") \ {e.t}) \cap Acts(script)) \ SymCopies(script))
                            \cup ArOf(LAMBDA o : ObjReadsTarget(script, o, e.t))
            /\ may' = may \cup ((DownTarget(script, e.t, "may") \ {e.t}) \cap Acts(script))
                          \cup ArOf(LAMBDA o : ObjReadsTarget(script, o, e.t)) \cup ArMay(DownTarget(script, e.t, "may") \ {e.t})
            /\ omust' = omust \cup { o \in Objs(script) : ObjReadsTarget(script, o, e.t) }
            /\ omay' = omay \cup { o \in Objs(script) : ObjReadsTargetM(script, o, e.t, "may") }
  /\ UNCHANGED script

TraceNext == /\ l <= Len(Traces[t].events)
             /\ LET e == Traces[t].events[l] IN
                CASE e.ev = "Script" -> DoScript(e)
                  [] e.ev = "Configure" -> DoConfigure(e)
                  [] e.ev = "Build" -> DoBuild(e)
                  [] e.ev = "Touch" -> DoTouch(e)
             /\ l' = l + 1 /\ UNCHANGED t
TraceSpec == TraceInit /\ [][TraceNext]_tvars
=============================================================================
