------------------------------ MODULE ObjNames ------------------------------
(* C05: implicitly named outputs.                                            *)
(*  - contract: distinct sources of one target (different directory          *)
(*    sequence or different stem) get distinct object files inside the build *)
(*    directory; sources differing only in extension make configure fail;    *)
(*    the source tree is never written.                                      *)
(*  - design model: default_name + within_directory (parent references are   *)
(*    rewritten to the reserved component PAR) + "<target>.int/".            *)
EXTENDS Naturals, Sequences, FiniteSets, TLC

CONSTANTS Names,      \* directory names (PAR excluded by the property)
          Stems,      \* file stems
          Exts,       \* source extensions that map to the same object extension
          MaxDepth,   \* submodule depth 0..MaxDepth, script dir = first d of SubDirs
          MaxDirs,    \* max directory components of a source below the script dir
          TDirs,      \* directory parts of the target name, e.g. <<>> for 'prog', <<"a","ab">> for 'a/ab/prog'
                      \* (a set of sequences; supplied by a wrapper module since cfg files cannot hold tuples)
          DotsUnescaped  \* TRUE models the pre-fix rewrite pattern "(^|/)..(?=/|$)" (any two characters)

SubDirs == <<"sub", "deep", "er">>
Last(s) == s[Len(s)]
Front(s) == SubSeq(s, 1, Len(s) - 1)

\* a source reference as written in the script at depth d:
\*   [up |-> 0..d, dirs |-> Seq(Names), stem, ext]
DirSeqs == UNION { [1..n -> Names] : n \in 0..MaxDirs }
Sources(d) == [up : 0..d, dirs : DirSeqs, stem : Stems, ext : Exts]

ScriptDir(d) == SubSeq(SubDirs, 1, d)
\* srcdir-relative location of the source
Loc(d, s) == SubSeq(ScriptDir(d), 1, d - s.up) \o s.dirs
SameFile(d, s1, s2) == Loc(d, s1) = Loc(d, s2) /\ s1.stem = s2.stem /\ s1.ext = s2.ext
\* "differ only in their extension"
ExtClash(d, s1, s2) == Loc(d, s1) = Loc(d, s2) /\ s1.stem = s2.stem /\ s1.ext # s2.ext
Distinct(d, s1, s2) == Loc(d, s1) # Loc(d, s2) \/ s1.stem # s2.stem

(* ---- design model ------------------------------------------------------- *)
RECURSIVE LCP(_, _)
LCP(a, b) == IF a = <<>> \/ b = <<>> \/ Head(a) # Head(b) THEN <<>>
             ELSE <<Head(a)>> \o LCP(Tail(a), Tail(b))
\* relpath of location `loc` from directory `base`, parent references written "PAR"
Rewrite(c) == IF DotsUnescaped /\ Len(c) = 2 THEN "PAR" ELSE c
RelPAR(loc, base) == LET k == Len(LCP(loc, base))
                         rest == SubSeq(loc, k + 1, Len(loc)) IN
                     [i \in 1..(Len(base) - k) |-> "PAR"] \o [i \in 1..Len(rest) |-> Rewrite(rest[i])]
\* object path (build-dir relative components, last = stem; ".o" is appended by the tool)
ObjPathT(d, td, target, intdirs, s) ==
  IF intdirs
    THEN ScriptDir(d) \o td \o <<target \o ".int">> \o RelPAR(Loc(d, s), ScriptDir(d) \o td) \o <<Rewrite(s.stem)>>
    ELSE Loc(d, s) \o <<s.stem>>
ObjPath(d, target, intdirs, s) == ObjPathT(d, <<>>, target, intdirs, s)

(* ---- what TLC checks on the design model -------------------------------- *)
VARIABLES d, intdirs, s1, s2, td
vars == <<d, intdirs, s1, s2, td>>
Init == /\ d \in 0..MaxDepth /\ intdirs \in BOOLEAN /\ td \in TDirs
        /\ s1 \in Sources(d) /\ s2 \in Sources(d)
Next == UNCHANGED vars
Spec == Init /\ [][Next]_vars

Target == "prog"
InvInjective == Distinct(d, s1, s2) => ObjPathT(d, td, Target, intdirs, s1) # ObjPathT(d, td, Target, intdirs, s2)
InvClash == ExtClash(d, s1, s2) => ObjPathT(d, td, Target, intdirs, s1) = ObjPathT(d, td, Target, intdirs, s2)
InvContained == \A i \in 1..Len(ObjPathT(d, td, Target, intdirs, s1)) : ObjPathT(d, td, Target, intdirs, s1)[i] # ".."
=============================================================================
