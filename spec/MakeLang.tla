------------------------------- MODULE MakeLang -------------------------------
(* Environment model of the GNU Make 4.3 subset bfg9000 relies on, on          *)
(* sequences of one-symbol strings.  Facts in DESIGN.md section 9.            *)
EXTENDS Naturals, Sequences, TLC
MkBSL == "\\"
MkErr == <<"<<MKERR>>">>

\* one expansion pass: "$$" -> "$", "$," -> "," (bfg defines the variable , := ,);
\* any other reference is an unwanted expansion -> MkErr
RECURSIVE MkExpandR(_)
MkExpandR(t) ==
  IF t = <<>> THEN <<>>
  ELSE IF Head(t) # "$" THEN
        LET r == MkExpandR(Tail(t)) IN IF r = MkErr THEN MkErr ELSE <<Head(t)>> \o r
  ELSE IF Len(t) >= 2 /\ t[2] \in {"$", ","} THEN
        LET r == MkExpandR(SubSeq(t, 3, Len(t))) IN IF r = MkErr THEN MkErr ELSE <<t[2]>> \o r
  ELSE MkErr
MkExpand(t) == MkExpandR(t)

\* variable-assignment lines: the first "#" preceded by an even number of backslashes starts a comment
\* (even inside sh quotes); "\#" yields "#".
RECURSIVE MkStripComment(_, _)
MkStripComment(t, nbs) ==
  IF t = <<>> THEN <<>>
  ELSE IF Head(t) = "#" THEN (IF nbs % 2 = 0 THEN <<>> ELSE <<"#">> \o MkStripComment(Tail(t), 0))
  ELSE IF Head(t) = MkBSL THEN <<MkBSL>> \o MkStripComment(Tail(t), nbs + 1)
  ELSE <<Head(t)>> \o MkStripComment(Tail(t), 0)
RECURSIVE MkLStrip(_)
MkLStrip(t) == IF t # <<>> /\ Head(t) \in {" ", "TAB"} THEN MkLStrip(Tail(t)) ELSE t

\* the value a ":=" line gives its variable
MkAssignValue(t) == MkExpand(MkLStrip(MkStripComment(t, 0)))

\* target- and pattern-specific assignment lines ("tgt: V := text"): make first looks for the first
\* unquoted ";" or "#" (a run of 2n+1 backslashes quotes the character and leaves n backslashes,
\* 2n backslashes leave n and the character is real); a real "#" starts a comment, after a real ";"
\* the rest of the line is taken verbatim.  (Observed with GNU Make 4.3, DESIGN.md section 9.)
RECURSIVE MkTScan(_, _)
MkTScan(t, run) ==     \* run = pending backslashes (a count)
  IF t = <<>> THEN [k \in 1..run |-> MkBSL]
  ELSE IF Head(t) = MkBSL THEN MkTScan(Tail(t), run + 1)
  ELSE IF Head(t) \in {"#", ";"} THEN
       IF run % 2 = 1 THEN [k \in 1..(run \div 2) |-> MkBSL] \o <<Head(t)>> \o MkTScan(Tail(t), 0)
       ELSE IF Head(t) = "#" THEN [k \in 1..(run \div 2) |-> MkBSL]
       ELSE [k \in 1..(run \div 2) |-> MkBSL] \o <<";">> \o Tail(t)
  ELSE [k \in 1..run |-> MkBSL] \o <<Head(t)>> \o MkTScan(Tail(t), 0)
MkTAssignValue(t) == MkExpand(MkLStrip(MkTScan(t, 0)))
\* plain assignment with the same backslash arithmetic before "#" (";" is inert)
RECURSIVE MkPScan(_, _)
MkPScan(t, run) ==
  IF t = <<>> THEN [k \in 1..run |-> MkBSL]
  ELSE IF Head(t) = MkBSL THEN MkPScan(Tail(t), run + 1)
  ELSE IF Head(t) = "#" THEN
       IF run % 2 = 1 THEN [k \in 1..(run \div 2) |-> MkBSL] \o <<"#">> \o MkPScan(Tail(t), 0)
       ELSE [k \in 1..(run \div 2) |-> MkBSL]
  ELSE [k \in 1..run |-> MkBSL] \o <<Head(t)>> \o MkPScan(Tail(t), 0)
MkPAssignValue(t) == MkExpand(MkLStrip(MkPScan(t, 0)))

\* $(call f,ARG): the argument text is cut at the first top-level comma / unbalanced ")" BEFORE expansion
RECURSIVE MkFirstArg(_, _)
MkFirstArg(t, depth) ==
  IF t = <<>> THEN <<>>
  ELSE IF Head(t) = "(" THEN <<"(">> \o MkFirstArg(Tail(t), depth + 1)
  ELSE IF Head(t) = ")" THEN (IF depth = 0 THEN <<>> ELSE <<")">> \o MkFirstArg(Tail(t), depth - 1))
  ELSE IF Head(t) = "," /\ depth = 0 THEN <<>>
  ELSE <<Head(t)>> \o MkFirstArg(Tail(t), depth)
MkCallArg(t) == MkExpand(MkLStrip(MkFirstArg(t, 0)))
=============================================================================
