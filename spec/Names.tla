---------------------------------- MODULE Names ----------------------------------
(* C04: file and directory names with special characters.  A name is a sequence of  *)
(* one-symbol strings.  Scope: the property excludes, per backend, the names for     *)
(* which no escaping accepted by the tool exists; that is (a) the classes the        *)
(* property text itself lists (PropertyExcludes) and (b) whatever a hand-written     *)
(* reference build file cannot express (decided at run time, logged as in_scope).    *)
EXTENDS Naturals, Sequences, FiniteSets, TLC
Last(s) == s[Len(s)]
Count(s, c) == Cardinality({ i \in 1..Len(s) : s[i] = c })
RECURSIVE Balanced(_, _, _)
Balanced(s, i, d) == IF i > Len(s) THEN d = 0
                     ELSE IF s[i] = "(" THEN Balanced(s, i + 1, d + 1)
                     ELSE IF s[i] = ")" THEN (d > 0 /\ Balanced(s, i + 1, d - 1))
                     ELSE Balanced(s, i + 1, d)
PropertyExcludes(backend, n) ==
  \/ n = <<>>
  \/ \E i \in 1..Len(n) : n[i] \in {"\\", "/"}           \* separators
  \/ (Len(n) >= 2 /\ n[2] = ":")                          \* drive prefix
  \/ (backend = "make" /\ (\/ \E i \in 1..Len(n) : n[i] \in {";", "=", "TAB"}
                           \/ Last(n) \in {" ", "&"}
                           \/ ~Balanced(n, 1, 0)))
  \/ (backend = "ninja" /\ \E i \in 1..Len(n) : n[i] = "|")
=============================================================================
