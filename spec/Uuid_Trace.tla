------------------------------ MODULE Uuid_Trace ------------------------------
(* Recorded histories of real MSBuild-backend runs: each event is the parsed *)
(* solution  [projects (seq of [name, guid]), deps (seq of [from, to] guids), *)
(* sln_guid, expected (number of projects the script declares)]              *)
EXTENDS Naturals, Sequences, FiniteSets, TLC, Json, IOUtils
Traces == JsonDeserialize(IOEnv.TRACE_FILE)
VARIABLES t, l, prev      \* prev: the previous solution event (or <<>>)
tvars == <<t, l, prev>>
Say(x) == PrintT(ToJson(x))
Reject(clause, info) == Say(<<"REJECT", Traces[t].id, clause, l, info>>) /\ FALSE
Need(cond, clause, info) == IF cond THEN TRUE ELSE Reject(clause, info)
Guids(e) == { e.projects[i].guid : i \in 1..Len(e.projects) }
TraceInit == t \in 1..Len(Traces) /\ l = 1 /\ prev = <<>>
TraceNext ==
  /\ l <= Len(Traces[t].events)
  /\ LET e == Traces[t].events[l] IN
     /\ Need(e.exit = 0, "RunSucceeds", e.exit)
     /\ Need(\A i, j \in 1..Len(e.projects) : i # j =>
                 (e.projects[i].guid # e.projects[j].guid /\ e.projects[i].name # e.projects[j].name),
             "UniqueGuids", e.projects)
     /\ Need(e.sln_guid \notin Guids(e), "SolutionGuidDistinct", e.sln_guid)
     /\ Need(\A k \in 1..Len(e.deps) : e.deps[k][1] \in Guids(e) /\ e.deps[k][2] \in Guids(e), "DepsClosed", e.deps)
     /\ Need(prev = <<>> \/ \A i \in 1..Len(e.projects), j \in 1..Len(prev.projects) :
                 e.projects[i].name = prev.projects[j].name => e.projects[i].guid = prev.projects[j].guid,
             "GuidStableWhileProjectExists", e.projects)
     \* the solution's own GUID is only visible in Project lines ("none" for an empty solution)
     /\ Need(prev = <<>> \/ e.sln_guid = "none" \/ prev.sln_guid = "none" \/ e.sln_guid = prev.sln_guid,
             "SolutionGuidStable", e.sln_guid)
     /\ (Len(e.projects) # e.expected => Say(<<"INFO", "SPEC-DRIFT", Traces[t].id>>))
     /\ prev' = e
  /\ l' = l + 1 /\ UNCHANGED t
TraceSpec == TraceInit /\ [][TraceNext]_tvars
=============================================================================
