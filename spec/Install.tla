--------------------------------- MODULE Install ---------------------------------
(* C15: install / uninstall.  Paths are sequences of components.                   *)
(* cfg: [prefix, exec_prefix, bindir, libdir, includedir, datadir, mandir] each a    *)
(* sequence of components (absolute) or <<>> meaning "not given on the command line" *)
EXTENDS Naturals, Sequences, FiniteSets, TLC
Given(x) == x # <<>>
\* the documented default chain of the install directories
RootValue(cfg, root) ==
  LET prefix == IF Given(cfg.prefix) THEN cfg.prefix ELSE <<"usr", "local">>
      execp == IF Given(cfg.exec_prefix) THEN cfg.exec_prefix ELSE prefix
      datadir == IF Given(cfg.datadir) THEN cfg.datadir ELSE prefix \o <<"share">> IN
  CASE root = "prefix" -> prefix
    [] root = "exec_prefix" -> execp
    [] root = "bindir" -> IF Given(cfg.bindir) THEN cfg.bindir ELSE execp \o <<"bin">>
    [] root = "libdir" -> IF Given(cfg.libdir) THEN cfg.libdir ELSE execp \o <<"lib">>
    [] root = "includedir" -> IF Given(cfg.includedir) THEN cfg.includedir ELSE prefix \o <<"include">>
    [] root = "datadir" -> datadir
    [] root = "mandir" -> IF Given(cfg.mandir) THEN cfg.mandir ELSE datadir \o <<"man">>
\* the directory for each kind of file
KindRoot(kind) == CASE kind \in {"exe"} -> "bindir"
                    [] kind \in {"shlib", "slib", "pc"} -> "libdir"
                    [] kind \in {"header", "hdrdir"} -> "includedir"
                    [] kind = "man" -> "mandir"
                    [] kind = "data" -> "datadir"
\* where an installed path object [root, comps] lives below DESTDIR
Realize(cfg, destdir, p) == destdir \o RootValue(cfg, p.root) \o p.comps
IsPrefix(a, b) == Len(a) <= Len(b) /\ SubSeq(b, 1, Len(a)) = a
=============================================================================
