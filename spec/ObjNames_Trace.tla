--------------------------- MODULE ObjNames_Trace ---------------------------
(* Validation of recorded configure runs against the C05 contract.           *)
(* One trace per generated project, one event:                               *)
(*   [d, intdirs, kind, sources, exit, outs (seq of [i, comps]),             *)
(*    srcdir_unchanged]                                                      *)
EXTENDS ObjNames, Json, IOUtils
Traces == JsonDeserialize(IOEnv.TRACE_FILE)
VARIABLES t, l
tvars == <<d, intdirs, s1, s2, td, t, l>>
Say(x) == PrintT(ToJson(x))
Reject(clause, info) == Say(<<"REJECT", Traces[t].id, clause, l, info>>) /\ FALSE
Need(cond, clause, info) == IF cond THEN TRUE ELSE Reject(clause, info)

\* two steps would write the same path: the same file listed twice, or (for compile steps,
\* whose outputs drop the extension) two sources differing only in the extension
\* (kinds "gen_<lang>": generated_sources(..., lang=<lang>) - the inputs of moc / lex / yacc / rcc / uic
\*  keep the whole source name in the generated file's name, like copies)
CompileKinds == {"executable", "static_library", "shared_library", "object_files"}
MustFail(e) == \E i, j \in 1..Len(e.sources) : i < j /\
                  (SameFile(e.d, e.sources[i], e.sources[j]) \/ (e.kind \in CompileKinds /\ ExtClash(e.d, e.sources[i], e.sources[j])))
OutOf(e, i) == LET k == CHOOSE k \in 1..Len(e.outs) : e.outs[k].i = i IN e.outs[k].comps
Contained(cs) == cs # <<>> /\ \A k \in 1..Len(cs) : cs[k] \notin {"..", ""}

CheckCase(e) ==
  /\ Need(e.srcdir_unchanged, "SourceTreeUntouched", e.exit)
  /\ IF MustFail(e) THEN Need(e.exit # 0, "ClashRejectedAtConfigure", e.exit)
     ELSE /\ Need(e.exit = 0, "DistinctSourcesConfigure", e.exit)
          /\ Need(\A i \in 1..Len(e.sources) : \E k \in 1..Len(e.outs) : e.outs[k].i = i, "EverySourceHasOutput", e.outs)
          /\ Need(\A i, j \in 1..Len(e.sources) :
                    (i < j /\ ~SameFile(e.d, e.sources[i], e.sources[j])) => OutOf(e, i) # OutOf(e, j),
                  "DistinctSourcesDistinctOutputs", e.outs)
          /\ Need(\A k \in 1..Len(e.outs) : ~e.outs[k].abs /\ Contained(e.outs[k].comps), "OutputsInsideBuildDir", e.outs)

\* not a verdict: does the code still follow the design model?  (reported as SPEC-DRIFT)
Drift(e) == e.exit = 0 /\ e.kind \in {"executable", "static_library", "shared_library"} /\
            \E k \in 1..Len(e.outs) :
               LET s == e.sources[e.outs[k].i]
                   cs == e.outs[k].comps
                   m == ObjPathT(e.d, e.tdirs, "prog", e.intdirs, s) IN
               cs # Front(m) \o <<Last(m) \o ".o">>

TraceInit == /\ t \in 1..Len(Traces) /\ l = 1
             /\ d = 0 /\ intdirs = FALSE /\ s1 = 0 /\ s2 = 0 /\ td = <<>>
\* [ev |-> "twice", what, exit]: a script that names one output path in two steps (of any kind)
CheckTwice(e) == Need(e.exit # 0, "OutputNamedTwiceIsRejected", e.what)
TraceNext == /\ l <= Len(Traces[t].events)
             /\ IF "ev" \in DOMAIN Traces[t].events[l]
                  THEN CheckTwice(Traces[t].events[l])
                  ELSE /\ CheckCase(Traces[t].events[l])
                       /\ (Drift(Traces[t].events[l]) => Say(<<"INFO", "SPEC-DRIFT", Traces[t].id>>))
             /\ l' = l + 1 /\ UNCHANGED <<d, intdirs, s1, s2, td, t>>
TraceSpec == TraceInit /\ [][TraceNext]_tvars
=============================================================================
