--------------------------------- MODULE Rng ---------------------------------
(* A deterministic pseudo-random generator carried in the state of the        *)
(* generator specs (MINSTD with Schrage's method, fits TLC's 32-bit integers). *)
(* Generator specs start one behaviour per seed and take exactly one          *)
(* successor per state, so TLC's ordinary breadth-first run enumerates N      *)
(* reproducible random walks (no dependence on TLC's own RandomElement).      *)
EXTENDS Naturals, Sequences, FiniteSets, SequencesExt
Lcg(s) == LET hi == s \div 127773
              lo == s % 127773
              a == 16807 * lo
              b == 2836 * hi IN
          IF a > b THEN a - b ELSE 2147483647 - (b - a)
RECURSIVE Nth(_, _)
Nth(s, k) == IF k = 0 THEN s ELSE Nth(Lcg(s), k - 1)
\* the low bits of MINSTD are fine for small ranges after discarding by division
Below(r, n) == (r \div 7) % n
Pick(S, r) == SetToSeq(S)[Below(r, Cardinality(S)) + 1]
PickSeq(q, r) == q[Below(r, Len(q)) + 1]
\* (kept below 2^31 for up to 1.6 million seeds; equal to base * 7919 + i * 104729 for small arguments)
SeedOf(i, base) == Nth((((base % 1000) * 7919 + (i % 16384) * 104729 + (i \div 16384) * 1000003) % 2147483646) + 1, 3)
=============================================================================
