---------------------------- MODULE WinArgv_Trace ----------------------------
(* Recorded calls of the real shell.windows.join / split validated against   *)
(* the Microsoft C runtime model.  One event per trace:                      *)
(*   [args, line, split_back]   (strings as sequences of symbols)            *)
EXTENDS WinArgv, Json, IOUtils
Traces == JsonDeserialize(IOEnv.TRACE_FILE)
VARIABLES t, l
tvars == <<args, t, l>>
Say(x) == PrintT(ToJson(x))
Reject(clause, info) == Say(<<"REJECT", Traces[t].id, clause, l, info>>) /\ FALSE
Need(cond, clause, info) == IF cond THEN TRUE ELSE Reject(clause, info)
TraceInit == t \in 1..Len(Traces) /\ l = 1 /\ args = <<>>
TraceNext == /\ l <= Len(Traces[t].events)
             /\ LET e == Traces[t].events[l] IN
                /\ Need(CrtArgs(e.line) = e.args, "RuntimeParsesBackOriginalArguments", CrtArgs(e.line))
                /\ Need(e.split_back = e.args, "SplitInvertsJoin", e.split_back)
                /\ (e.line # Join(e.args) => Say(<<"INFO", "SPEC-DRIFT", Traces[t].id>>))
             /\ l' = l + 1 /\ UNCHANGED <<args, t>>
TraceSpec == TraceInit /\ [][TraceNext]_tvars
=============================================================================
