----------------------------- MODULE Config_Trace -----------------------------
(* C09(b,c) contract.                                                           *)
(* Mode "load": one event [version, loaded, equal]: a configuration written in   *)
(*   format `version` loads and equals the configuration that was saved.         *)
(* Mode "e2e": [ev |-> "Configure", exit], then [ev |-> "Later", cmd, exit,      *)
(*   outputs_equal, vars_equal]: every later regenerate / env / run sees exactly *)
(*   the configure-time configuration, whatever the ambient environment.         *)
EXTENDS Naturals, Sequences, TLC, Json, IOUtils
CONSTANT Mode
Traces == JsonDeserialize(IOEnv.TRACE_FILE)
VARIABLES t, l, configured
tvars == <<t, l, configured>>
Say(x) == PrintT(ToJson(x))
Reject(clause, info) == Say(<<"REJECT", Traces[t].id, clause, l, info>>) /\ FALSE
Need(cond, clause, info) == IF cond THEN TRUE ELSE Reject(clause, info)
TraceInit == t \in 1..Len(Traces) /\ l = 1 /\ configured = FALSE
Load(e) == /\ Need(e.loaded, "OlderFormatLoads", e.version)
           /\ Need(e.equal, "ReloadedConfigurationEqualsSaved", e.version)
           /\ UNCHANGED configured
Configure(e) == Need(e.exit = 0, "ConfigureSucceeds", e.exit) /\ configured' = TRUE
Later(e) == /\ Need(configured, "ConfiguredFirst", e.cmd)
            /\ Need(e.exit = 0, "LaterCommandSucceeds", e.exit)
            /\ Need(e.vars_equal, "VariablesRestored", e.cmd)
            /\ Need(e.outputs_equal, "OutputsEqualConfigureTime", e.cmd)
            /\ UNCHANGED configured
TraceNext == /\ l <= Len(Traces[t].events)
             /\ LET e == Traces[t].events[l] IN
                IF Mode = "load" THEN Load(e)
                ELSE IF e.ev = "Configure" THEN Configure(e) ELSE Later(e)
             /\ l' = l + 1 /\ UNCHANGED t
TraceSpec == TraceInit /\ [][TraceNext]_tvars
=============================================================================
