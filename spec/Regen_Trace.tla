------------------------------ MODULE Regen_Trace ------------------------------
(* C08 / C10 contract on recorded histories of real regenerations.              *)
(* events:                                                                      *)
(*   [ev |-> "Edit", op, path]                    a user edit of the project     *)
(*   [ev |-> "Mut", k, op, file, side]            a mutation point of an in-flight *)
(*                                                bfg9000 process (from the shim) *)
(*   [ev |-> "Fault", k, mode]                    the process was killed / a call  *)
(*                                                raised at point k               *)
(*   [ev |-> "Raise", where]                      the edited script raises        *)
(*   [ev |-> "Attempt", exit, fresh, diff, unchanged, rewrote]                   *)
(*        one run of the backend's regeneration step: exit status, whether the   *)
(*        build file and every declared output equal a fresh configure, whether  *)
(*        the build file is byte-identical to what it was before the run, and    *)
(*        whether the run rewrote the build file                                 *)
(* contract state: what the next Attempt is obliged to do.                       *)
EXTENDS Naturals, Sequences, TLC, Json, IOUtils
Traces == JsonDeserialize(IOEnv.TRACE_FILE)
VARIABLES t, l,
          lastk,        \* highest mutation point seen in the in-flight process
          raising,      \* the current script version raises
          settled       \* the last attempt succeeded and nothing was edited since
tvars == <<t, l, lastk, raising, settled>>
Say(x) == PrintT(ToJson(x))
Reject(clause, info) == Say(<<"REJECT", Traces[t].id, clause, l, info>>) /\ FALSE
Need(cond, clause, info) == IF cond THEN TRUE ELSE Reject(clause, info)

TraceInit == t \in 1..Len(Traces) /\ l = 1 /\ lastk = 0 /\ raising = FALSE /\ settled = FALSE

Edit(e) == /\ raising' = (IF e.op = "raise" THEN TRUE ELSE IF e.op = "unraise" THEN FALSE ELSE raising)
           /\ settled' = FALSE /\ lastk' = 0
Mut(e) == /\ Need(e.k = lastk + 1, "MutationPointsAreSequential", e.k)
          /\ lastk' = e.k /\ UNCHANGED <<raising, settled>>
Fault(e) == /\ Need(e.k = lastk, "FaultAtLastLoggedPoint", e.k)
            /\ settled' = FALSE /\ lastk' = 0 /\ UNCHANGED raising
Attempt(e) ==
  \* C10 NoSilentStale / C08 EqualsFresh: success only with fresh outputs
  \* (a difference that is only the ORDER of the dist recipes' file list - the recorded finding - is
  \*  reported as a SOFT rejection: the verdict is the same, but the rest of the history is still examined)
  /\ IF e.exit = 0 /\ ~e.fresh /\ e.diff = "dist-order"
       THEN Say(<<"SOFT", Traces[t].id, "SuccessImpliesFreshBuildFiles", l, e.diff>>)
       ELSE Need(e.exit = 0 => e.fresh, "SuccessImpliesFreshBuildFiles", e.exit)
  \* C10: a raising script leaves the previous build file untouched and fails visibly
  /\ Need(raising => (e.exit # 0 /\ e.unchanged), "RaisingScriptKeepsBuildFile", e.exit)
  \* C08 Converges: right after a successful regeneration nothing is regenerated again
  /\ Need(settled => (e.exit = 0 /\ ~e.rewrote), "SecondRunRegeneratesNothing", e.rewrote)
  \* C08: valid edits never make regeneration fail (only checked when the trace says so)
  /\ Need(e.must_succeed => e.exit = 0, "RegenerationSucceeds", e.exit)
  /\ settled' = (e.exit = 0) /\ lastk' = 0 /\ UNCHANGED raising

TraceNext ==
  /\ l <= Len(Traces[t].events)
  /\ LET e == Traces[t].events[l] IN
       CASE e.ev = "Edit" -> Edit(e)
         [] e.ev = "Mut" -> Mut(e)
         [] e.ev = "Fault" -> Fault(e)
         [] e.ev = "Attempt" -> Attempt(e)
  /\ l' = l + 1 /\ UNCHANGED t
TraceSpec == TraceInit /\ [][TraceNext]_tvars
=============================================================================
