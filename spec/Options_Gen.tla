------------------------------- MODULE Options_Gen -------------------------------
(* The option x placement space of C16: every single slot and every unordered pair. *)
EXTENDS Options, Json
CONSTANTS Langs, Pairs      \* Pairs = TRUE: also all pairs
CompileOpts == { [o |-> "define", v |-> "42"], [o |-> "define", v |-> "a b"], [o |-> "std", v |-> "c99"], [o |-> "std", v |-> "c11"],
                 [o |-> "std", v |-> "gnu11"], [o |-> "std", v |-> "c17"], [o |-> "include", v |-> ""],
                 \* an absolute include directory that the configure-time environment also lists in CPATH
                 [o |-> "include", v |-> "cpath"],
                 [o |-> "sysinclude", v |-> "incdir"], [o |-> "sysinclude", v |-> "/usr/include"],
                 [o |-> "warning", v |-> "disable"], [o |-> "warning", v |-> "all"], [o |-> "warning", v |-> "all+error"],
                 [o |-> "debug", v |-> ""], [o |-> "optimize", v |-> "disable"], [o |-> "optimize", v |-> "speed"],
                 [o |-> "optimize", v |-> "size"], [o |-> "optimize", v |-> "linktime"], [o |-> "pic", v |-> ""],
                 [o |-> "pthread", v |-> ""], [o |-> "sanitize", v |-> ""], [o |-> "pch", v |-> ""] }
\* (debug and pthread given only at link time have no effect a probe can observe)
\* lib: by name next to lib_dir (v = ""), or a pre-built library FILE object (v = its file name; the
\* linker model of bfg9000 turns it into -L<dir> -l<name> or passes the path)
LinkOpts == { [o |-> "static", v |-> ""], [o |-> "lib", v |-> ""], [o |-> "lib", v |-> "libext.so"],
              [o |-> "lib", v |-> "libext.api.so"], [o |-> "lib", v |-> "libext-1.2.so"],
              [o |-> "lib", v |-> "libext.so.x.so"], [o |-> "lib", v |-> "libext.abi.a"],
              [o |-> "lib", v |-> "libext.a"] }
Slots == { [o |-> x.o, v |-> x.v, where |-> w] : x \in CompileOpts, w \in {"target", "global", "toolchain"} }
         \* (a library FILE in global_link_options is rejected at configure time - "unable to construct
         \*  rpath": there is no output to be relative to - so file values are placed per target only)
         \cup { [o |-> x.o, v |-> x.v, where |-> w] : x \in { y \in LinkOpts : ~(y.o = "lib" /\ y.v # "") },
                                                           w \in {"link", "globallink"} }
         \cup { [o |-> x.o, v |-> x.v, where |-> "link"] : x \in { y \in LinkOpts : y.o = "lib" /\ y.v # "" } }
         \cup { [o |-> "envdef", v |-> "", where |-> "env"] }
         \* a library requested for every link through the environment (LDLIBS=-lext2, LDFLAGS=-L<dir>)
         \cup { [o |-> "envlib", v |-> "", where |-> "env"] }
VARIABLE c
Init == c \in { [lang |-> l, slots |-> <<a>>] : l \in Langs, a \in Slots }
              \cup (IF Pairs THEN { [lang |-> l, slots |-> <<a, b>>] : l \in Langs, a \in Slots, b \in Slots } ELSE {})
Next == UNCHANGED c
Spec == Init /\ [][Next]_c
Ok == \/ Len(c.slots) = 1
      \/ (~Incompatible(c.slots[1], c.slots[2]) /\ c.slots[1] # c.slots[2]
          /\ ~(c.slots[1].o = c.slots[2].o /\ c.slots[1].v = c.slots[2].v)
          \* a toolchain file SETS the flags variable, replacing what the environment gave
          /\ ~({c.slots[1].where, c.slots[2].where} = {"env", "toolchain"}))
Emit == Ok => PrintT(ToJson(c))
=============================================================================
