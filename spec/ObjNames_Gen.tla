---------------------------- MODULE ObjNames_Gen ----------------------------
(* Case generation for C05 (with -simulate): one random project per walk.   *)
EXTENDS ObjNames, Json
VARIABLE done
RandSrc(dd) == [up |-> RandomElement(0..dd), dirs |-> RandomElement(DirSeqs),
                stem |-> RandomElement(Stems), ext |-> RandomElement(Exts)]
\* a neighbour of s: same place, one field changed -- collisions live among neighbours
Near(dd, s) == LET k == RandomElement(1..7) IN
   CASE k = 1 -> [s EXCEPT !.ext = RandomElement(Exts)]
     \* same directory sequence except for the first component
     [] k = 6 -> (IF s.dirs = <<>> THEN RandSrc(dd) ELSE [s EXCEPT !.dirs = <<RandomElement(Names)>> \o Tail(s.dirs)])
     [] k = 7 -> (IF s.dirs = <<>> THEN RandSrc(dd) ELSE [s EXCEPT !.dirs = <<RandomElement(Names)>> \o Tail(s.dirs)])
     [] k = 2 -> [s EXCEPT !.stem = RandomElement(Stems)]
     [] k = 3 -> [s EXCEPT !.dirs = RandomElement(DirSeqs)]
     [] k = 4 -> [s EXCEPT !.up = RandomElement(0..dd)]
     [] OTHER -> RandSrc(dd)
GenInit == done = FALSE /\ d = 0 /\ intdirs = FALSE /\ s1 = 0 /\ s2 = 0 /\ td = <<>>
GenNext == /\ ~done /\ done' = TRUE
           /\ \E dd \in {RandomElement(0..MaxDepth)} :
              \E tdd \in {RandomElement(TDirs)} :
              \E a0 \in {RandSrc(dd)} :
              \* half of the time the first source sits in a directory that ends like the target's directory
              \E a \in {IF tdd # <<>> /\ RandomElement(BOOLEAN)
                          THEN [a0 EXCEPT !.up = 0, !.dirs = <<RandomElement(Names)>> \o Tail(tdd)] ELSE a0} :
              \E b \in {Near(dd, a)} : \E c \in {Near(dd, b)} :
              \E id \in {RandomElement(BOOLEAN)}, kind \in {RandomElement({"executable", "static_library", "shared_library", "object_files", "copy"})},
                 n \in {RandomElement(2..3)} :
                 /\ d' = dd /\ intdirs' = id /\ s1' = a /\ s2' = b /\ td' = tdd
                 /\ PrintT(ToJson([d |-> dd, intdirs |-> id, kind |-> kind, tdirs |-> tdd,
                                   sources |-> IF n = 2 THEN <<a, b>> ELSE <<a, b, c>>]))
GenSpec == GenInit /\ [][GenNext]_<<vars, done>>
=============================================================================
