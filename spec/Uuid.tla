--------------------------------- MODULE Uuid ---------------------------------
(* C20(b).  MSBuild solutions across a history of configure/regenerate runs. *)
(* Contract: every project of a solution has a unique GUID, a project that   *)
(* exists in two consecutive solutions keeps its GUID, and every dependency   *)
(* reference names a project of the same solution.                           *)
(* Design: the persisted name -> GUID map (.bfg_uuid), which keeps only the  *)
(* names seen in the last run.                                               *)
EXTENDS Naturals, Sequences, FiniteSets, TLC
CONSTANTS Projects, MaxRuns

VARIABLES map,      \* persisted: name -> guid (a function with finite domain)
          sln,      \* [guid : name -> guid over the current project set, deps : set of <<name, name>>]
          fresh,    \* next unused guid
          runs, hist
vars == <<map, sln, fresh, runs, hist>>

Keys(P) == P \cup {""}          \* "" is the solution's own GUID
Init == map = <<>> /\ sln = [guid |-> <<>>, deps |-> {}] /\ fresh = 1 /\ runs = 0 /\ hist = <<>>

\* dependencies only point "backwards" in a fixed order, so they are acyclic
Order == CHOOSE f \in [Projects -> 1..Cardinality(Projects)] : \A a, b \in Projects : a # b => f[a] # f[b]
DepSets(P) == SUBSET { <<a, b>> \in P \X P : Order[b] < Order[a] }

RECURSIVE Assign(_, _, _)
\* give every key of ks (a sequence) its guid: the persisted one, or a fresh one
Assign(ks, m, f) == IF ks = <<>> THEN [m |-> m, f |-> f]
                    ELSE LET k == Head(ks) IN
                         IF k \in DOMAIN m THEN Assign(Tail(ks), m, f)
                         ELSE Assign(Tail(ks), (k :> f) @@ m, f + 1)
SeqOf(S) == CHOOSE s \in [1..Cardinality(S) -> S] : \A i, j \in 1..Cardinality(S) : i # j => s[i] # s[j]

Generate(P, D, how) ==
  /\ runs < MaxRuns
  /\ LET r == Assign(SeqOf(Keys(P)), map, fresh)
         seen == [k \in Keys(P) |-> r.m[k]] IN
     /\ map' = seen                        \* only the names seen this time are saved
     /\ fresh' = r.f
     /\ sln' = [guid |-> [p \in P |-> seen[p]], deps |-> D]
  /\ runs' = runs + 1
  /\ hist' = Append(hist, [projects |-> P, deps |-> D, how |-> how])

Next == \E P \in SUBSET Projects, how \in {"configure", "regenerate"} : \E D \in DepSets(P) : Generate(P, D, how)
Spec == Init /\ [][Next]_vars
View == <<map, sln, fresh, runs>>

UniqueGuids == \A a, b \in DOMAIN sln.guid : a # b => sln.guid[a] # sln.guid[b]
DepsClosed == \A d \in sln.deps : d[1] \in DOMAIN sln.guid /\ d[2] \in DOMAIN sln.guid
Stable == [][\A p \in DOMAIN sln.guid \cap DOMAIN sln'.guid : sln'.guid[p] = sln.guid[p]]_vars
SlnGuidStable == [][("" \in DOMAIN map /\ "" \in DOMAIN map') => map'[""] = map[""]]_vars
=============================================================================
