------------------------------- MODULE Scope_Gen -------------------------------
(* Trees of submodule scripts and user-argument declarations for C19.            *)
EXTENDS Rng, Json, TLC
CONSTANTS NSeeds, SeedBase, MaxNodes
VARIABLES rng, done
RECURSIVE Depth(_, _)
Depth(par, i) == IF i = 0 THEN 0 ELSE 1 + Depth(par, par[i])
\* parent of node i is a pseudo-random earlier node (0 = the root script), depth <= 3
RECURSIVE Parents(_, _, _)
Parents(n, i, acc) == IF i > n THEN acc
                      ELSE LET cand == { p \in 0..(i - 1) : Depth(acc, p) < 3 }
                               p == Pick(cand, Nth(rng, 10 + i)) IN
                           Parents(n, i + 1, Append(acc, p))
GenInit == done = FALSE /\ rng \in { SeedOf(i, SeedBase) : i \in 1..NSeeds }
GenNext == /\ ~done /\ done' = TRUE /\ rng' = rng
           /\ LET n == 1 + Below(Nth(rng, 1), MaxNodes) IN
              PrintT(ToJson([parents |-> Parents(n, 1, <<>>),
                             flags |-> [i \in 1..(n + 1) |-> Below(Nth(rng, 30 + i), 128)],
                             argvals |-> [i \in 1..6 |-> Below(Nth(rng, 60 + i), 3)],
                             spelling |-> [i \in 1..6 |-> Below(Nth(rng, 70 + i), 2)]]))
GenSpec == GenInit /\ [][GenNext]_<<rng, done>>
=============================================================================
