----------------------------- MODULE Backends_Trace -----------------------------
(* C06 contract: for one script and environment the Makefile, build.ninja and     *)
(* compile_commands.json describe the same build.                                 *)
(* events:                                                                        *)
(*  [ev |-> "Targets", make (seq of buildable target names), ninja (same)]        *)
(*  [ev |-> "Step", out, make |-> [prog, argv, cwd, env], ninja |-> same,          *)
(*                   compdb |-> [argv, cwd, file] or [argv |-> <<>>]]              *)
(*  [ev |-> "Ran", goal, cause, make (seq), ninja (seq)]   steps run by the same   *)
(*                   build request after the same history on both backends         *)
(* The documented backend-specific additions are the allow-list below.            *)
EXTENDS Naturals, Sequences, FiniteSets, TLC, Json, IOUtils
Traces == JsonDeserialize(IOEnv.TRACE_FILE)
VARIABLES t, l
tvars == <<t, l>>
Say(x) == PrintT(ToJson(x))
Reject(clause, info) == Say(<<"REJECT", Traces[t].id, clause, l, info>>) /\ FALSE
Need(cond, clause, info) == IF cond THEN TRUE ELSE Reject(clause, info)
ToSet(s) == { s[i] : i \in 1..Len(s) }

\* ---- allow-list ---------------------------------------------------------------
NinjaOnlyFlags == {"-fdiagnostics-color"}
RECURSIVE Strip(_, _)
Strip(argv, drop) == IF argv = <<>> THEN <<>>
                     ELSE IF Head(argv) \in drop THEN Strip(Tail(argv), drop)
                     ELSE <<Head(argv)>> \o Strip(Tail(argv), drop)
\* bookkeeping targets that exist in only one backend's vocabulary
MakeOnlyTargets == {"Makefile", "clean", "%/.dir"}
NinjaOnlyTargets == {"build.ninja", "clean", "PHONY"}
SameStep(a, b) == /\ a.prog = b.prog /\ a.cwd = b.cwd /\ a.env = b.env
                  /\ Strip(a.argv, NinjaOnlyFlags) = Strip(b.argv, NinjaOnlyFlags)

TraceInit == t \in 1..Len(Traces) /\ l = 1
TraceNext ==
  /\ l <= Len(Traces[t].events)
  /\ LET e == Traces[t].events[l] IN
     CASE e.ev = "Targets" ->
            Need(ToSet(e.make) \ MakeOnlyTargets = ToSet(e.ninja) \ NinjaOnlyTargets, "SameBuildableTargets",
                 <<(ToSet(e.make) \ MakeOnlyTargets) \ ToSet(e.ninja), (ToSet(e.ninja) \ NinjaOnlyTargets) \ ToSet(e.make)>>)
       [] e.ev = "Step" ->
            /\ Need(e.make.present /\ e.ninja.present, "StepExistsInBothBackends", e.out)
            /\ Need(SameStep(e.make, e.ninja), "SameProgramArgumentsCwdEnvironment", e.out)
            /\ Need(e.compdb.argv = <<>> \/
                      (Strip(e.compdb.argv, NinjaOnlyFlags) = Strip(e.make.argv, NinjaOnlyFlags) /\ e.compdb.cwd = e.make.cwd),
                    "CompdbEntryEqualsExecutedCommand", e.out)
       [] e.ev = "Ran" ->
            \* (symbolic-link copies aside: Ninja re-runs every consumer of a step that ran, Make goes by the
            \*  time stamp, which for a link is that of what it points to - the tools differ, not the build files)
            Need(ToSet(e.make) \ ToSet(e.sym) = ToSet(e.ninja) \ ToSet(e.sym), "SameStepsRunForSameRequest", <<e.goal, e.cause>>)
  /\ l' = l + 1 /\ UNCHANGED t
TraceSpec == TraceInit /\ [][TraceNext]_tvars
=============================================================================
