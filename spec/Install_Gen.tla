------------------------------- MODULE Install_Gen -------------------------------
(* Pseudo-random install configurations for C15 (one per seed).                    *)
EXTENDS Rng, Json, TLC
CONSTANTS NSeeds, SeedBase
VARIABLES rng, done
Dirs == << <<>>, <<>>, <<"opt", "my app">>, <<"usr">>, <<"x y", "z">>, <<"p">> >>
Sub(k) == PickSeq(<< <<>>, <<>>, <<"sub dir">>, <<"d1", "d2">> >>, Nth(rng, k))
GenInit == done = FALSE /\ rng \in { SeedOf(i, SeedBase) : i \in 1..NSeeds }
GenNext == /\ ~done /\ done' = TRUE /\ rng' = rng
           /\ LET R(k) == Nth(rng, k)
                  opt(k, leaf) == LET d == PickSeq(Dirs, R(k)) IN IF d = <<>> THEN <<>> ELSE d \o <<leaf>> IN
              PrintT(ToJson([cfg |-> [prefix |-> PickSeq(Dirs, R(1)), exec_prefix |-> PickSeq(Dirs, R(2)),
                                      bindir |-> opt(3, "b i n"), libdir |-> opt(4, "lib64"),
                                      includedir |-> opt(5, "inc"), datadir |-> opt(6, "share data"),
                                      mandir |-> opt(7, "man")],
                             destdir |-> PickSeq(<< <<"stage">>, <<"dest dir", "x">>, <<"st$age">> >>, R(8)),
                             items |-> [i \in 1..8 |-> Below(R(10 + i), 3) # 0],
                             dirargs |-> [i \in 1..8 |-> Sub(20 + i)]]))
GenSpec == GenInit /\ [][GenNext]_<<rng, done>>
=============================================================================
