------------------------------ MODULE PkgConfLang ------------------------------
(* Environment model: how the consumer of `pkg-config --cflags/--libs` output     *)
(* splits it into flags (sh-style quoting and backslash escapes; nothing is       *)
(* expanded).  Sequences of one-symbol strings.                                   *)
EXTENDS Naturals, Sequences, TLC
PcErr == << <<"<<PCERR>>">> >>
RECURSIVE PcP(_, _, _, _, _, _)
PcP(t, i, mode, cur, has, acc) ==
  IF i > Len(t) THEN (IF mode # "n" THEN PcErr ELSE IF has THEN Append(acc, cur) ELSE acc)
  ELSE LET c == t[i] IN
   IF mode = "sq" THEN (IF c = "'" THEN PcP(t, i + 1, "n", cur, TRUE, acc) ELSE PcP(t, i + 1, "sq", Append(cur, c), TRUE, acc))
   ELSE IF mode = "dq" THEN
      (IF c = "\"" THEN PcP(t, i + 1, "n", cur, TRUE, acc)
       ELSE IF c = "\\" /\ i + 1 <= Len(t) /\ t[i + 1] \in {"\"", "\\", "$", "`"} THEN PcP(t, i + 2, "dq", Append(cur, t[i + 1]), TRUE, acc)
       ELSE PcP(t, i + 1, "dq", Append(cur, c), TRUE, acc))
   ELSE IF c = "'" THEN PcP(t, i + 1, "sq", cur, TRUE, acc)
   ELSE IF c = "\"" THEN PcP(t, i + 1, "dq", cur, TRUE, acc)
   ELSE IF c = "\\" THEN (IF i + 1 > Len(t) THEN PcErr ELSE PcP(t, i + 2, "n", Append(cur, t[i + 1]), TRUE, acc))
   ELSE IF c \in {" ", "TAB", "NL"} THEN PcP(t, i + 1, "n", <<>>, FALSE, IF has THEN Append(acc, cur) ELSE acc)
   ELSE PcP(t, i + 1, "n", Append(cur, c), TRUE, acc)
PcSplit(line) == PcP(line, 1, "n", <<>>, FALSE, <<>>)
=============================================================================
