---------------------------- MODULE PkgConfig_Trace ----------------------------
(* C17 contract on recorded executions.                                           *)
(*  [ev |-> "Flags", form ("installed"|"uninstalled"), which ("cflags"|"libs"),   *)
(*   exit, out (pkg-config output, symbols), expected (seq of flags, symbols),    *)
(*   exact (BOOLEAN: whole list must match; else `expected` must be contained in  *)
(*   order), absent (seq of flags that must not occur)]                           *)
(*  [ev |-> "Simplify", set (seq of [op, v]), raised, accepts (seq over Points)]   *)
(*  [ev |-> "Requires", set, configure_exit, exists (seq over Points of           *)
(*   BOOLEAN: pkg-config --exists succeeded with the dependency at that version)] *)
EXTENDS Specs, PkgConfLang, IOUtils
Traces == JsonDeserialize(IOEnv.TRACE_FILE)
VARIABLES t, l
tvars == <<t, l, S>>
Say(x) == PrintT(ToJson(x))
Reject(clause, info) == Say(<<"REJECT", Traces[t].id, clause, l, info>>) /\ FALSE
Need(cond, clause, info) == IF cond THEN TRUE ELSE Reject(clause, info)
ToSet(s) == { s[i] : i \in 1..Len(s) }
RECURSIVE Subseq(_, _)
Subseq(a, b) == IF a = <<>> THEN TRUE ELSE IF b = <<>> THEN FALSE
                ELSE IF Head(a) = Head(b) THEN Subseq(Tail(a), Tail(b)) ELSE Subseq(a, Tail(b))
PointSeq == [i \in 1..Cardinality(Points) |-> i]     \* Points = 1..N
TraceInit == t \in 1..Len(Traces) /\ l = 1 /\ S = {}
DoFlags(e) ==
  LET ws == PcSplit(e.out) IN
  /\ Need(e.exit = 0, "PkgConfigReadsTheFile", e.form)
  /\ Need(ws # PcErr, "OutputIsWellQuoted", e.form)
  /\ IF e.exact THEN Need(ws = e.expected, "FlagsDenoteExactlyTheDeclaredOnes", ws)
     ELSE Need(Subseq(e.expected, ws), "DeclaredFlagsArePresentInOrder", ws)
  \* flags of things the script explicitly did not declare (an empty includes= / libs= list)
  /\ Need(\A x \in ToSet(e.absent) : x \notin ToSet(ws), "UndeclaredFlagsAreAbsent", ws)
DoSimplify(e) ==
  LET T == ToSet(e.set) IN
  /\ Need(e.raised = Unsat(T), "RejectedIffUnsatisfiable", e.raised)
  /\ Need(e.raised \/ \A x \in Points : e.accepts[x] = Accepts(T, x), "SimplifiedSetAcceptsSameVersions", e.accepts)
\* field "requires" / "requires_private" / "both" (public and private lists name the same package: the
\* specifiers are combined): pkg-config finds the package exactly at the versions the set accepts.
\* field "conflicts" (next to a plain requirement on the same package): pkg-config refuses the package
\* exactly at the versions the set accepts; a set the format cannot express may be rejected instead.
\* a Conflicts field is a list of single comparisons, any of which refuses the version: the set of
\* refused versions must be a union of (at most two) single-comparison sets
ExpressibleAsConflicts(T) ==
  \E R \in SUBSET AllSpecs : /\ Cardinality(R) <= 2
                              /\ \A x \in Points : Accepts(T, x) = (\E r \in R : Sat(r, x))
DoRequires(e) ==
  LET T == ToSet(e.set) IN
  IF e.field = "conflicts"
  THEN /\ Need(e.configure_exit = 0 \/ Unsat(T) \/ ~ExpressibleAsConflicts(T), "ConflictRuleRejectedOnlyIfInexpressible", e.configure_exit)
       /\ Need(e.configure_exit # 0 \/ \A x \in Points : e.exists[x] = ~Accepts(T, x), "ConflictsRefuseExactlyTheDeclaredVersions", e.exists)
  ELSE /\ Need((e.configure_exit # 0) = (Unsat(T) \/ e.multi), "UnsatisfiableRequirementRejectedAtConfigure", e.configure_exit)
       /\ Need(e.configure_exit # 0 \/ \A x \in Points : e.exists[x] = Accepts(T, x), "RequiresAcceptsExactlyTheDeclaredVersions", e.exists)
\* a second project that uses the generated package through package() with the real compiler
DoConsumer(e) ==
  /\ Need(e.producer_exit = 0, "ProducerBuilds", e.producer_exit)
  /\ Need(e.configure_exit = 0, "ConsumerFindsThePackage", e.configure_exit)
  /\ Need(e.build_exit = 0, "ConsumerBuildsAgainstTheProject", e.build_exit)
  /\ Need(e.run_exit = 0 /\ e.out = 42, "ConsumerRuns", <<e.run_exit, e.out>>)
TraceNext == /\ l <= Len(Traces[t].events)
             /\ LET e == Traces[t].events[l] IN
                CASE e.ev = "Flags" -> DoFlags(e) [] e.ev = "Simplify" -> DoSimplify(e) [] e.ev = "Requires" -> DoRequires(e) [] e.ev = "Consumer" -> DoConsumer(e)
             /\ l' = l + 1 /\ UNCHANGED <<t, S>>
TraceSpec == TraceInit /\ [][TraceNext]_tvars
=============================================================================
