------------------------------- MODULE Dist_Trace -------------------------------
(* C18 contract: the source distribution contains every file of the source tree   *)
(* that the script names (Script.tla gives the set from the abstract script) or    *)
(* that configuration reads, except files marked dist=False, and nothing else.    *)
(* event: [decls, fixed (files the fixed trailer of the project names), nodist,    *)
(*         members (archive members, relative), srctree (files in the source dir), *)
(*         refs (source-dir paths the generated build file mentions),              *)
(*         dist_exit, reconf_exit, reconf_equal]                                   *)
EXTENDS Script, Json, IOUtils
Traces == JsonDeserialize(IOEnv.TRACE_FILE)
VARIABLES t, l
tvars == <<t, l>>
Say(x) == PrintT(ToJson(x))
Reject(clause, info) == Say(<<"REJECT", Traces[t].id, clause, l, info>>) /\ FALSE
Need(cond, clause, info) == IF cond THEN TRUE ELSE Reject(clause, info)
FileName(f) == IF f = "d1" THEN "d1.txt" ELSE f \o ".c"
\* files named by a declaration that distributes its inputs (sources of linked targets, files named in
\* a build_step command, copy_file sources unless declared with dist=False)
Named(script) ==
  UNION { { FileName(f) : f \in FilesOf(script[i].srcs) \cup
                                 (IF script[i].kind = "step" \/ (script[i].kind = "copy" /\ script[i].dist)
                                    THEN FilesOf(script[i].ins) ELSE {}) }
          \cup (IF script[i].pch THEN {PchFile(script[i].name) \o ".h"} ELSE {})
          \cup (IF script[i].hdr THEN {"h2.h"} ELSE {}) \cup (IF script[i].vlib THEN {"libv1.a"} ELSE {})
          : i \in 1..Len(script) }
\* files named only by dist=False declarations
NoDistOnly(script) ==
  UNION { { FileName(f) : f \in FilesOf(script[i].ins) } :
          i \in { j \in 1..Len(script) : script[j].kind = "copy" /\ ~script[j].dist } } \ Named(script)
TraceInit == t \in 1..Len(Traces) /\ l = 1
TraceNext ==
  /\ l <= Len(Traces[t].events)
  /\ LET e == Traces[t].events[l]
         mem == ToSet(e.members)
         want == Named(e.decls) \cup ToSet(e.fixed)
         absent == (NoDistOnly(e.decls) \cup ToSet(e.nodist)) \ want IN
     /\ Need(e.dist_exit = 0, "DistTargetSucceeds", e.dist_exit)
     /\ Need(want \subseteq mem, "EveryNamedFileIsDistributed", want \ mem)
     /\ Need(absent \cap mem = {}, "DistFalseFilesAreAbsent", absent \cap mem)
     /\ Need(mem \subseteq ToSet(e.srctree), "NothingFromOutsideTheSourceTree", mem \ ToSet(e.srctree))
     /\ Need(\A r \in ToSet(e.refs) : r \in mem \/ r \in absent, "EveryReferencedSourceFileIsDistributed",
             { r \in ToSet(e.refs) : r \notin mem /\ r \notin absent })
     /\ Need(e.reconf_exit = 0, "UnpackedArchiveConfigures", e.reconf_exit)
     /\ Need(e.reconf_equal, "UnpackedArchiveConfiguresToSameBuild", e.reconf_exit)
     \* files added after configuration (extra_dist directory, find_files match, extra= file) and the
     \* dist target run again through the build tool
     /\ Need(e.other_formats_missing = <<>>, "EveryArchiveFormatHasTheSameMembers", e.other_formats_missing)
     /\ Need(e.later_exit = 0, "DistAfterTreeChangeSucceeds", e.later_exit)
     /\ Need(e.later_missing = <<>>, "DistAfterTreeChangeContainsTheNewFiles", e.later_missing)
  /\ l' = l + 1 /\ UNCHANGED t
TraceSpec == TraceInit /\ [][TraceNext]_tvars
=============================================================================
