------------------------------ MODULE Escape_Trace ------------------------------
(* Design-level conformance of the build-file writers' escape functions with       *)
(* Quote.tla: every recorded call  [fn, arg (symbols), out (symbols)]  of           *)
(*   mk_target / mk_dep / mk_shell / mk_function  (backends/make/syntax.py)         *)
(*   nj_path / nj_shell                            (backends/ninja/syntax.py)       *)
(*   sh_quote                                      (shell/posix.py quote)           *)
(* must return what the design model returns.  A rejection is design DRIFT (the     *)
(* code no longer is the modelled algorithm), not a property violation: the check   *)
(* that uses this spec sends the drifting inputs through the real build tool.       *)
EXTENDS Quote, Json, IOUtils
Traces == JsonDeserialize(IOEnv.TRACE_FILE)
VARIABLES t, l
tvars == <<t, l>>
Say(x) == PrintT(ToJson(x))
Reject(clause, info) == Say(<<"REJECT", Traces[t].id, clause, l, info>>) /\ FALSE
Need(cond, clause, info) == IF cond THEN TRUE ELSE Reject(clause, info)
Model(e) == CASE e.fn = "mk_target" -> MkEscPath(e.arg, FALSE)
              [] e.fn = "mk_dep" -> MkEscPath(e.arg, TRUE)
              [] e.fn = "mk_shell" -> MkEsc(e.arg, FALSE)
              [] e.fn = "mk_function" -> MkEsc(e.arg, TRUE)
              [] e.fn = "nj_path" -> NjEscPath(e.arg)
              [] e.fn = "nj_shell" -> NjEsc(e.arg)
              [] e.fn = "sh_quote" -> ShQuote(e.arg)
TraceInit == t \in 1..Len(Traces) /\ l = 1
TraceNext == /\ l <= Len(Traces[t].events)
             /\ LET e == Traces[t].events[l] IN Need(e.out = Model(e), "WriterIsTheModelledAlgorithm", <<e.fn, Model(e)>>)
             /\ l' = l + 1 /\ UNCHANGED t
TraceSpec == TraceInit /\ [][TraceNext]_tvars
=============================================================================
