-------------------------------- MODULE Glob_MC --------------------------------
(* Exhaustive comparison of the design model of glob.py with the documented     *)
(* semantics, over all small trees and patterns (one include pattern).          *)
EXTENDS Glob
CONSTANTS MaxDepth, MaxPat
NA == <<"a">>
NB == <<"b">>
NAB == <<"a", "b">>
MCNames == {NA, NAB}
L(c) == [k |-> "lit", c |-> c]
MCComps == { [k |-> "ss"],
             [k |-> "c", items |-> <<L("a")>>], [k |-> "c", items |-> <<L("b")>>],
             [k |-> "c", items |-> <<[k |-> "star"]>>],
             [k |-> "c", items |-> <<L("a"), [k |-> "star"]>>],
             [k |-> "c", items |-> <<[k |-> "any"]>>] }
AllPaths == UNION { [1..n -> MCNames] : n \in 1..MaxDepth }
VARIABLES tree, pat, ty
vars == <<tree, pat, ty>>
Entries(ps, dirs) == {[path |-> <<>>, dir |-> TRUE]} \cup { [path |-> p, dir |-> p \in dirs] : p \in ps }
Init == /\ \E ps \in SUBSET AllPaths : \E dirs \in SUBSET ps :
             /\ tree = Entries(ps, dirs) /\ TreeOK(tree)
        /\ pat \in { [comps |-> c, dirpat |-> d] : c \in UNION { [1..n -> MCComps] : n \in 1..MaxPat }, d \in BOOLEAN }
        /\ HasGlob(pat)
        /\ ty \in {"f", "d", "*"} /\ (pat.dirpat => ty # "f")
Next == UNCHANGED vars
Spec == Init /\ [][Next]_vars
F == [include |-> <<pat>>, type |-> ty, extra |-> <<>>, exclude |-> <<>>]
Agree == BasesExist(tree, F) => FoundDesign(tree, pat, ty) = Selected(tree, F)
=============================================================================
